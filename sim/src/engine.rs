//! What the driver needs from an engine (ENV or WORLD) to run a property check.

use serde::{Deserialize, Serialize};
use serde_json::Value as J;
use std::collections::BTreeMap;

#[derive(Clone, Debug, Default, Serialize, Deserialize)]
pub struct ViolationRec {
    pub oracle: String,
    /// stable classification used for minimisation and the known-findings file
    pub signature: String,
    pub expected: String,
    pub observed: String,
    pub detail: String,
}

#[derive(Clone, Debug, Default)]
pub struct RunStats {
    /// why nothing was compared (the statements are silent), if so
    pub silent: Option<String>,
    /// fault / event kinds and rare-condition probes that actually fired in this run
    pub fired: BTreeMap<String, u64>,
    /// hash of the abstract case (distinctness measure)
    pub distinct_key: u64,
    /// further abstract states reached inside the run (WORLD: model state after each op)
    pub states: Vec<u64>,
    pub ops: u64,
    pub callback_events: u64,
    pub sim_time_ns: u64,
}

pub struct RunResult {
    pub stats: RunStats,
    pub violation: Option<ViolationRec>,
    /// the case that actually exhibits the violation, when the engine had to adjust the
    /// given one to make the violation replayable
    pub case_override: Option<J>,
}

pub trait Engine: Sync + Send {
    fn property(&self) -> &'static str;
    fn engine_name(&self) -> &'static str;
    /// (number of enumerated cases, number of random cases) for the tier
    fn plan(&self, thorough: bool) -> (u64, u64);
    fn enumerated_exhaustive(&self) -> bool {
        false
    }
    /// the explicit case of index k (JSON, exactly what a replay file stores under "case")
    fn case(&self, k: u64, seed: u64, thorough: bool) -> J;
    /// decide one explicit case in this process
    fn check(&self, case: &J) -> Result<RunResult, String>;
    /// one-step simplifications of a case, smallest first
    fn variants(&self, case: &J) -> Vec<J>;
    fn case_size(&self, case: &J) -> usize;
    /// must a candidate be run in its own process while minimising (process death is an outcome)
    fn isolate(&self) -> bool {
        false
    }
    fn level(&self) -> &'static str;
    fn rule(&self) -> String;
    fn assumptions(&self) -> Vec<String>;
}
