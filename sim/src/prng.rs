//! One integer decides everything: splitmix64 seeding + xoshiro256**.
//! No dependency, no global state, never touched by logging paths.

#[derive(Clone, Debug)]
pub struct Rng {
    s: [u64; 4],
}

pub fn splitmix(x: &mut u64) -> u64 {
    *x = x.wrapping_add(0x9E37_79B9_7F4A_7C15);
    let mut z = *x;
    z = (z ^ (z >> 30)).wrapping_mul(0xBF58_476D_1CE4_E5B9);
    z = (z ^ (z >> 27)).wrapping_mul(0x94D0_49BB_1331_11EB);
    z ^ (z >> 31)
}

/// Seed of run `i` of stream `tag` under master seed `seed`; independent of the
/// number of worker processes and of which worker executes the run.
pub fn mix(seed: u64, tag: &str, i: u64) -> u64 {
    let mut h = seed ^ 0xD6E8_FEB8_6659_FD93;
    let mut out = splitmix(&mut h);
    for b in tag.bytes() {
        h ^= b as u64;
        out ^= splitmix(&mut h);
    }
    h ^= i.wrapping_mul(0xA24B_AED4_963E_E407);
    out ^ splitmix(&mut h)
}

impl Rng {
    pub fn new(seed: u64) -> Rng {
        let mut x = seed;
        let s = [
            splitmix(&mut x),
            splitmix(&mut x),
            splitmix(&mut x),
            splitmix(&mut x),
        ];
        Rng { s }
    }

    pub fn next(&mut self) -> u64 {
        let r = self.s[1].wrapping_mul(5).rotate_left(7).wrapping_mul(9);
        let t = self.s[1] << 17;
        self.s[2] ^= self.s[0];
        self.s[3] ^= self.s[1];
        self.s[1] ^= self.s[2];
        self.s[0] ^= self.s[3];
        self.s[2] ^= t;
        self.s[3] = self.s[3].rotate_left(45);
        r
    }

    /// uniform in 0..n (n > 0)
    pub fn below(&mut self, n: u64) -> u64 {
        debug_assert!(n > 0);
        // multiply-shift; bias is irrelevant at these sizes
        ((self.next() as u128 * n as u128) >> 64) as u64
    }

    pub fn usize(&mut self, n: usize) -> usize {
        self.below(n as u64) as usize
    }

    /// inclusive range
    pub fn range(&mut self, lo: i64, hi: i64) -> i64 {
        lo + self.below((hi - lo + 1) as u64) as i64
    }

    /// true with probability num/den
    pub fn chance(&mut self, num: u64, den: u64) -> bool {
        self.below(den) < num
    }

    pub fn pick<'a, T>(&mut self, xs: &'a [T]) -> &'a T {
        &xs[self.usize(xs.len())]
    }

    /// weighted choice: returns index
    pub fn weighted(&mut self, ws: &[u32]) -> usize {
        let tot: u64 = ws.iter().map(|w| *w as u64).sum();
        let mut r = self.below(tot.max(1));
        for (i, w) in ws.iter().enumerate() {
            if r < *w as u64 {
                return i;
            }
            r -= *w as u64;
        }
        ws.len() - 1
    }

    pub fn bytes16(&mut self) -> [u8; 16] {
        let a = self.next().to_le_bytes();
        let b = self.next().to_le_bytes();
        let mut o = [0u8; 16];
        o[..8].copy_from_slice(&a);
        o[8..].copy_from_slice(&b);
        o
    }

    pub fn fork(&mut self) -> Rng {
        Rng::new(self.next())
    }
}

/// FNV-1a 64, used for digests of event logs and abstract states (stable across
/// processes, unlike std's RandomState).
pub fn fnv(bytes: &[u8]) -> u64 {
    let mut h: u64 = 0xcbf2_9ce4_8422_2325;
    for b in bytes {
        h ^= *b as u64;
        h = h.wrapping_mul(0x0000_0100_0000_01B3);
    }
    h
}
