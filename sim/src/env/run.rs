//! ENV engine: execute one explicit case against the real rscel (on fresh threads whose hash
//! keys the simulator chose), evaluate the reference model, and compare histories.

use super::ast::*;
use super::model::{Event, Model, Silent, MO};
use crate::seams;
use crate::val::{Class, Outcome, V};
use rscel::{BindContext, CelContext, CelValue};
use serde::{Deserialize, Serialize};
use std::cell::RefCell;
use std::collections::BTreeMap;
use std::rc::Rc;

#[derive(Clone, Debug, PartialEq, Eq, Serialize, Deserialize)]
pub struct Observed {
    pub outcome: Outcome,
    pub log: Vec<Event>,
    /// discrepancies between the caller's bindings before and after the exec
    pub bindings_changed: Vec<String>,
}

#[derive(Clone, Debug, PartialEq, Eq, Serialize, Deserialize)]
pub struct Violation {
    /// oracle that fired
    pub oracle: String,
    pub expected: String,
    pub observed: String,
    pub detail: String,
}

#[derive(Clone, Debug, Default)]
pub struct CaseStats {
    pub silent: Option<&'static str>,
    pub probes: BTreeMap<&'static str, u64>,
    pub events: u64,
    pub embedded_err_skipped: bool,
    pub log_digest: u64,
    pub outcome_kind: &'static str,
}

fn collect_loop_vars(e: &E, out: &mut Vec<String>) {
    match e {
        E::Macro(_, _, v, _) => out.push(v.clone()),
        E::Reduce(_, a, v, _, _) => {
            out.push(a.clone());
            out.push(v.clone());
        }
        _ => {}
    }
    for c in e.children() {
        collect_loop_vars(c, out);
    }
}

/// Run the case once on the calling thread (which must be a fresh simulated thread).
fn exec_here(case: &EnvCase) -> Observed {
    let log: Rc<RefCell<Vec<Event>>> = Rc::new(RefCell::new(vec![]));
    let counts: Rc<RefCell<BTreeMap<u16, u32>>> = Rc::new(RefCell::new(BTreeMap::new()));
    let mut funcs: Vec<(String, Box<dyn Fn(CelValue, Vec<CelValue>) -> CelValue>)> = vec![];
    for (site, script) in case.scripts.iter() {
        let site = *site;
        let script = script.clone();
        let log = log.clone();
        let counts = counts.clone();
        funcs.push((
            site_name(site),
            Box::new(move |_this: CelValue, args: Vec<CelValue>| -> CelValue {
                let ord = {
                    let mut c = counts.borrow_mut();
                    let e = c.entry(site).or_insert(0);
                    let o = *e;
                    *e += 1;
                    o
                };
                log.borrow_mut().push(Event { site, ordinal: ord, args: args.iter().map(V::from_cel).collect() });
                if script.is_empty() {
                    return CelValue::from_null();
                }
                match &script[ord as usize % script.len()] {
                    Answer::V(v) => v.to_cel(),
                    Answer::Fail(c) => CelValue::from_err(c.make(&format!("injected:{}#{}", site_name(site), ord))),
                }
            }),
        ));
    }

    let mut ctx = CelContext::new();
    for p in case.pre.iter().filter(|p| !p.late) {
        run_pre(p, &mut ctx, None);
    }
    for (name, e) in case.programs.iter() {
        if let Err(err) = ctx.add_program_str(name, &e.render(case.flat)) {
            return Observed {
                outcome: Outcome::Fail(Class::of(&err), format!("compile {}: {}", name, err)),
                log: vec![],
                bindings_changed: vec![],
            };
        }
    }
    let mut bind = BindContext::new();
    for p in case.pre.iter() {
        match p.kind {
            PreKind::StaleDirect(_) => {
                for k in case.bindings.keys() {
                    bind.bind_param(k, CelValue::from_string("stale-binding".to_string()));
                }
            }
            PreKind::StaleJson(_) => {
                let mut obj = serde_json::Map::new();
                for k in case.bindings.keys() {
                    obj.insert(k.clone(), serde_json::Value::String("stale-binding".into()));
                }
                let jv: rscel::serde_json::Value =
                    rscel::serde_json::from_str(&serde_json::Value::Object(obj).to_string()).expect("json");
                let _ = bind.bind_params_from_json_obj(jv);
            }
            _ => {}
        }
    }
    if case.via_json {
        let mut obj = serde_json::Map::new();
        for (k, v) in case.bindings.iter() {
            obj.insert(k.clone(), to_json(v));
        }
        let jv: rscel::serde_json::Value =
            rscel::serde_json::from_str(&serde_json::Value::Object(obj).to_string()).expect("json");
        bind.bind_params_from_json_obj(jv).expect("bind json");
    } else {
        for (k, v) in case.bindings.iter() {
            bind.bind_param(k, v.to_cel());
        }
    }
    for (n, f) in funcs.iter() {
        bind.bind_func(n, f.as_ref());
    }

    let mut pre_events = 0usize;
    let mut siblings: Vec<CelContext> = vec![];
    for p in case.pre.iter() {
        match p.kind {
            PreKind::SiblingCtx(_) => {
                let mut sib = ctx.clone();
                for (name, e) in case.programs.iter() {
                    if name != "main" {
                        let _ = sib.add_program_str(name, "'stale-sibling'");
                        let _ = ctx.add_program_str(name, &e.render(case.flat));
                    }
                }
                let _ = std::panic::catch_unwind(std::panic::AssertUnwindSafe(|| sib.exec("main", &bind)));
                siblings.push(sib);
                pre_events = log.borrow().len().max(1);
            }
            PreKind::SiblingBind(_) => {
                let mut b2 = bind.clone();
                for (k, v) in case.bindings.iter() {
                    b2.bind_param(k, CelValue::from_string("stale-sibling".to_string()));
                    bind.bind_param(k, v.to_cel());
                }
                let _ = std::panic::catch_unwind(std::panic::AssertUnwindSafe(|| ctx.exec("main", &b2)));
                pre_events = log.borrow().len().max(1);
            }
            _ => {}
        }
    }
    for p in case.pre.iter().filter(|p| p.late) {
        run_pre(p, &mut ctx, Some(&bind));
        // a pre-op on the case's own context may legitimately call into the environment
        // (none of the texts does); whatever it logged is not part of the exec under test
        pre_events = log.borrow().len();
    }
    if pre_events > 0 {
        log.borrow_mut().clear();
        counts.borrow_mut().clear();
    }
    let r = std::panic::catch_unwind(std::panic::AssertUnwindSafe(|| ctx.exec("main", &bind)));
    let outcome = match r {
        Ok(r) => Outcome::from_result(&r),
        Err(p) => Outcome::Panic(panic_msg(&p)),
    };

    // O-frozen on the caller's bindings
    let mut changed = vec![];
    let mut names: Vec<String> = case.bindings.keys().cloned().collect();
    for e in case.programs.values() {
        collect_loop_vars(e, &mut names);
    }
    names.sort();
    names.dedup();
    for n in names {
        let now = bind.get_param(&n).map(V::from_cel);
        let want = case.bindings.get(&n).cloned();
        if now != want {
            changed.push(format!(
                "{}: bound before = {}, after = {}",
                n,
                want.map(|v| v.to_string()).unwrap_or("<unbound>".into()),
                now.map(|v| v.to_string()).unwrap_or("<unbound>".into())
            ));
        }
    }
    let l = log.borrow().clone();
    drop(siblings);
    Observed { outcome, log: l, bindings_changed: changed }
}

/// one injected history step; its outcome is ignored (a panic is C01's business)
fn run_pre(p: &PreOp, ctx: &mut CelContext, bind: Option<&BindContext>) {
    let pick = |texts: &[&'static str], v: u8| texts[v as usize % texts.len()];
    let empty = BindContext::new();
    let mut scratch = CelContext::new();
    let (c, b): (&mut CelContext, &BindContext) = if p.own { (ctx, bind.unwrap_or(&empty)) } else { (&mut scratch, &empty) };
    let _ = std::panic::catch_unwind(std::panic::AssertUnwindSafe(|| match p.kind {
        PreKind::BadCompile(v) => {
            let _ = c.add_program_str("zz_bad", pick(&BAD_TEXTS, v));
        }
        PreKind::BadCompileFree(v) => {
            let _ = rscel::Program::from_source(pick(&BAD_TEXTS, v));
        }
        PreKind::FailExec(v) => {
            if c.add_program_str("zz_pre", pick(&FAIL_TEXTS, v)).is_ok() {
                let _ = c.exec("zz_pre", b);
            }
        }
        PreKind::DepthExec(v) => {
            if c.add_program_str("zz_pre", pick(&DEPTH_TEXTS, v)).is_ok() {
                for _ in 0..(1 + v as usize % 3) {
                    let _ = c.exec("zz_pre", b);
                }
            }
        }
        PreKind::OkExec(v) => {
            if c.add_program_str("zz_pre", pick(&OK_TEXTS, v)).is_ok() {
                let _ = c.exec("zz_pre", b);
            }
        }
        PreKind::SiblingCtx(_) | PreKind::SiblingBind(_) | PreKind::StaleDirect(_) | PreKind::StaleJson(_) => {}
    }));
}

pub fn panic_msg(p: &Box<dyn std::any::Any + Send>) -> String {
    if let Some(s) = p.downcast_ref::<&str>() {
        s.to_string()
    } else if let Some(s) = p.downcast_ref::<String>() {
        s.clone()
    } else {
        "panic".into()
    }
}

pub fn to_json(v: &V) -> serde_json::Value {
    use serde_json::Value as J;
    match v {
        V::Int(i) => J::from(*i),
        V::UInt(u) => J::from(*u),
        V::F(b) => J::from(f64::from_bits(*b)),
        V::Bool(b) => J::from(*b),
        V::Str(s) => J::from(s.clone()),
        V::List(l) => J::Array(l.iter().map(to_json).collect()),
        V::Map(m) => J::Object(m.iter().map(|(k, v)| (k.clone(), to_json(v))).collect()),
        _ => J::Null,
    }
}

/// can the value be bound through JSON and come out identical?
pub fn json_faithful(v: &V) -> bool {
    match v {
        V::Int(_) | V::Bool(_) | V::Str(_) | V::Null => true,
        V::UInt(u) => *u > i64::MAX as u64,
        V::F(b) => {
            let f = f64::from_bits(*b);
            f.is_finite()
        }
        V::List(l) => l.iter().all(json_faithful),
        V::Map(m) => m.values().all(json_faithful),
        _ => false,
    }
}

/// Execute on a fresh OS thread (default stack size) that was handed `keys`.
pub fn exec_on_fresh_thread(case: &EnvCase, keys: [u8; 16]) -> Observed {
    exec_many_on_fresh_thread(std::slice::from_ref(case), keys).pop().unwrap()
}

/// Execute several cases one after the other on one fresh OS thread (default stack size)
/// that was handed `keys`.  Thread creation is by far the most expensive step of a case
/// in this sandbox, so probes that need the same keys share a thread.
pub fn exec_many_on_fresh_thread(cases: &[EnvCase], keys: [u8; 16]) -> Vec<Observed> {
    let cases = cases.to_vec();
    std::thread::Builder::new()
        .name("sim-client".into())
        .spawn(move || {
            seams::set_thread_hash_keys(keys);
            cases.iter().map(exec_here).collect::<Vec<_>>()
        })
        .expect("spawn")
        .join()
        .expect("client thread died")
}

/// Execute on the calling (long-lived) thread: the hash keys are whatever std derived for
/// the n-th map of this thread.  Used for the bulk of the ENV cases, whose verdict must not
/// depend on hash keys; every violation found this way is re-confirmed on fresh threads
/// with recorded keys before it is reported (see EnvEngine::check_case).
pub fn exec_inline(case: &EnvCase) -> Observed {
    exec_here(case)
}

fn learn_map_order(m: &BTreeMap<String, V>, keys: &[[u8; 16]]) -> Result<Vec<String>, Violation> {
    let mut probes: Vec<(String, EnvCase)> = vec![];
    for (mk, body) in [(MacroKind::Map, E::var("k")), (MacroKind::Filter, E::lit(V::Bool(true)))] {
        for bound in [true, false] {
            let range = if bound { E::var("m__") } else { E::Lit(V::Map(m.clone())) };
            let mut case = EnvCase {
                programs: BTreeMap::new(),
                bindings: BTreeMap::new(),
                scripts: BTreeMap::new(),
                flat: false,
                hash_keys: vec![],
                via_json: false,
                threads: true,
                named: BTreeMap::new(),
                clock_ns: None,
                pre: vec![],
            };
            if bound {
                case.bindings.insert("m__".into(), V::Map(m.clone()));
            }
            case.programs.insert("main".into(), E::mac(mk, range, "k", vec![body.clone()]));
            probes.push((format!("{}({})", mk.name(), if bound { "bound map" } else { "literal map" }), case));
        }
    }
    let cases: Vec<EnvCase> = probes.iter().map(|p| p.1.clone()).collect();
    let mut orders: Vec<(String, Vec<String>)> = vec![];
    for k in keys {
        let obs = exec_many_on_fresh_thread(&cases, *k);
        for (i, o) in obs.iter().enumerate() {
            let order = match &o.outcome {
                Outcome::Val(V::List(xs)) => xs
                    .iter()
                    .map(|x| if let V::Str(s) = x { s.clone() } else { format!("?{}", x) })
                    .collect::<Vec<_>>(),
                other => vec![format!("<{}>", other)],
            };
            orders.push((format!("{} keys={}", probes[i].0, hex(k)), order));
        }
    }
    let first = orders[0].1.clone();
    for (what, o) in orders.iter() {
        if *o != first {
            return Err(Violation {
                oracle: "map-key-order-fixed".into(),
                expected: format!("every map/filter over {} visits the keys in the same order", V::Map(m.clone())),
                observed: format!("{} -> {:?} but {} -> {:?}", orders[0].0, first, what, o),
                detail: "visiting order of map keys depends on the hash keys / map instance".into(),
            });
        }
    }
    let mut sorted = first.clone();
    sorted.sort();
    let mut want: Vec<String> = m.keys().cloned().collect();
    want.sort();
    if sorted != want {
        return Err(Violation {
            oracle: "map-key-order-fixed".into(),
            expected: format!("a permutation of the keys {:?}", want),
            observed: format!("{:?}", first),
            detail: "map(k,k) over a map did not return its keys".into(),
        });
    }
    Ok(first)
}

pub fn hex(k: &[u8; 16]) -> String {
    k.iter().map(|b| format!("{:02x}", b)).collect()
}

fn fmt_log(l: &[Event]) -> String {
    l.iter()
        .map(|e| {
            format!(
                "{}#{}({})",
                site_name(e.site),
                e.ordinal,
                e.args.iter().map(|a| a.to_string()).collect::<Vec<_>>().join(",")
            )
        })
        .collect::<Vec<_>>()
        .join(" ")
}

/// Decide one case.  Ok(stats) = held (or silent), Err = violation.
pub fn check_case(case: &EnvCase) -> Result<CaseStats, (Violation, CaseStats)> {
    let mut stats = CaseStats::default();
    let keys: Vec<[u8; 16]> = if case.hash_keys.is_empty() { vec![[7u8; 16]] } else { case.hash_keys.clone() };

    // 1. reference model (learning map key orders from the implementation where needed)
    let mut orders: BTreeMap<String, Vec<String>> = BTreeMap::new();
    let mut expected: Option<(MO, Vec<Event>)> = None;
    for _round in 0..6 {
        let mut m = Model::new(case, &orders);
        let r = m.run();
        match r {
            Ok(mo) => {
                stats.probes = m.probes.clone();
                expected = Some((mo, m.log.clone()));
                break;
            }
            Err(Silent(why)) if why == "map range whose key order was not learnt" => {
                // find the map value the model stopped at: re-run with a recorder
                let need = find_unlearnt_map(case, &orders);
                match need {
                    Some(mv) => {
                        let probe_keys: Vec<[u8; 16]> = {
                            let mut k = keys.clone();
                            // at least three different key sets for the order probe
                            let mut i = 0u8;
                            while k.len() < 3 {
                                i += 1;
                                let mut extra = keys[0];
                                extra[0] ^= i;
                                extra[9] = extra[9].wrapping_add(i.wrapping_mul(37));
                                k.push(extra);
                            }
                            k
                        };
                        match learn_map_order(&mv, &probe_keys) {
                            Ok(o) => {
                                orders.insert(format!("{}", V::Map(mv)), o);
                            }
                            Err(v) => return Err((v, stats)),
                        }
                    }
                    None => {
                        stats.silent = Some(why);
                        break;
                    }
                }
            }
            Err(Silent(why)) => {
                stats.silent = Some(why);
                stats.probes = m.probes.clone();
                break;
            }
        }
    }

    // 2. the real thing: once per hash-key set on fresh threads, or once on this thread
    let mut obs: Vec<Observed> = vec![];
    if case.threads {
        for k in keys.iter() {
            obs.push(exec_on_fresh_thread(case, *k));
        }
    } else {
        obs.push(exec_inline(case));
    }
    let first = obs[0].clone();
    // a generated text that does not compile is a mistake of the generator (a rendering the
    // grammar does not accept), never evidence about the properties: nothing is compared
    if let Outcome::Fail(Class::Syntax, msg) = &first.outcome {
        if msg.starts_with("compile ") {
            stats.silent = Some("a generated program did not compile");
            stats.outcome_kind = "failure";
            return Ok(stats);
        }
    }
    stats.events = first.log.len() as u64;
    stats.log_digest = crate::prng::fnv(fmt_log(&first.log).as_bytes());
    stats.outcome_kind = match &first.outcome {
        Outcome::Val(_) => "value",
        Outcome::Fail(..) => "failure",
        Outcome::Panic(_) => "panic",
    };
    for (i, o) in obs.iter().enumerate().skip(1) {
        if !o.outcome.same(&first.outcome) || o.log != first.log {
            return Err((
                Violation {
                    oracle: "hash-keys-independence".into(),
                    expected: format!("same result and call history under every hash-key set; keys {} gave {} / {}", hex(&keys[0]), first.outcome, fmt_log(&first.log)),
                    observed: format!("keys {} gave {} / {}", hex(&keys[i]), o.outcome, fmt_log(&o.log)),
                    detail: "result or call history depends on the hash keys of the executing thread".into(),
                },
                stats,
            ));
        }
    }
    if let Outcome::Panic(m) = &first.outcome {
        return Err((
            Violation {
                oracle: "no-panic".into(),
                expected: "a value or a failure".into(),
                observed: format!("panic: {}", m),
                detail: "exec panicked".into(),
            },
            stats,
        ));
    }
    if !first.bindings_changed.is_empty() {
        return Err((
            Violation {
                oracle: "caller-bindings-unchanged".into(),
                expected: "the caller's bindings are the same after exec".into(),
                observed: first.bindings_changed.join("; "),
                detail: "exec changed the caller's bindings".into(),
            },
            stats,
        ));
    }

    // 3. compare with the model
    if let Some((mo, elog)) = expected {
        if elog != first.log {
            return Err((
                Violation {
                    oracle: "call-history".into(),
                    expected: fmt_log(&elog),
                    observed: fmt_log(&first.log),
                    detail: describe_log_diff(&elog, &first.log),
                },
                stats,
            ));
        }
        let skip = match &first.outcome {
            Outcome::Val(v) => v.has_embedded_err(),
            _ => false,
        };
        if skip {
            stats.embedded_err_skipped = true;
        } else if !mo.accepts(&first.outcome) {
            return Err((
                Violation {
                    oracle: "result".into(),
                    expected: mo.brief(),
                    observed: format!("{}", first.outcome),
                    detail: "result differs from the reference evaluator".into(),
                },
                stats,
            ));
        }
    }
    Ok(stats)
}

fn describe_log_diff(exp: &[Event], obs: &[Event]) -> String {
    let n = exp.iter().zip(obs.iter()).take_while(|(a, b)| a == b).count();
    if n == exp.len() && obs.len() > exp.len() {
        format!("extra event(s) after position {}: an operand that must not be evaluated was evaluated (first extra: {})", n, fmt_log(&obs[n..n + 1]))
    } else if n == obs.len() && exp.len() > obs.len() {
        format!("missing event(s) after position {}: an operand that must be evaluated was not (first missing: {})", n, fmt_log(&exp[n..n + 1]))
    } else {
        format!("histories diverge at position {}: expected {} observed {}", n, fmt_log(&exp[n..n + 1]), fmt_log(&obs[n..n + 1]))
    }
}

/// the model stops at the first map range whose order is unknown; find that value by
/// evaluating with a recording stub order (sorted) for already-unknown maps
fn find_unlearnt_map(case: &EnvCase, known: &BTreeMap<String, Vec<String>>) -> Option<BTreeMap<String, V>> {
    // Walk: evaluate the model with a hook is overkill; instead collect every map value that
    // can reach a macro range statically: literal maps and bound map variables.
    let mut cands: Vec<BTreeMap<String, V>> = vec![];
    fn walk(e: &E, case: &EnvCase, out: &mut Vec<BTreeMap<String, V>>) {
        if let E::Macro(_, r, _, _) = e {
            collect_maps(r, case, out);
        }
        for c in e.children() {
            walk(c, case, out);
        }
    }
    fn collect_maps(r: &E, case: &EnvCase, out: &mut Vec<BTreeMap<String, V>>) {
        match r {
            E::Lit(V::Map(m)) => out.push(m.clone()),
            E::Var(n) => {
                if let Some(V::Map(m)) = case.bindings.get(n) {
                    out.push(m.clone());
                }
            }
            E::MapLit(kv) => {
                // literal map with computed values: only the key set matters for the order probe
                // but the model keys the order by the full value, so evaluate lazily: skip
                let _ = kv;
            }
            E::Member(..) | E::Index(..) => {
                // a map nested in the bound tree
                fn sub(v: &V, out: &mut Vec<BTreeMap<String, V>>) {
                    match v {
                        V::Map(m) => {
                            out.push(m.clone());
                            for x in m.values() {
                                sub(x, out);
                            }
                        }
                        V::List(l) => {
                            for x in l {
                                sub(x, out);
                            }
                        }
                        _ => {}
                    }
                }
                for v in case.bindings.values() {
                    sub(v, out);
                }
            }
            E::Call(s, _) => {
                if let Some(sc) = case.scripts.get(s) {
                    for a in sc {
                        if let Answer::V(V::Map(m)) = a {
                            out.push(m.clone());
                        }
                    }
                }
            }
            _ => {}
        }
    }
    for e in case.programs.values() {
        walk(e, case, &mut cands);
    }
    cands.into_iter().find(|m| !known.contains_key(&format!("{}", V::Map(m.clone()))))
}
