//! ENV engine: the expression trees the simulator generates, their rendering as CEL source,
//! and the explicit case (program texts + bound tree + callback scripts + hash keys) that is
//! written to a replay file.

use crate::val::{render_str, Class, V};
use serde::{Deserialize, Serialize};
use std::collections::BTreeMap;

#[derive(Clone, Copy, Debug, PartialEq, Eq, Hash, PartialOrd, Ord, Serialize, Deserialize)]
pub enum Cmp {
    Eq,
    Ne,
    Lt,
    Le,
    Gt,
    Ge,
}

impl Cmp {
    pub const ALL: [Cmp; 6] = [Cmp::Eq, Cmp::Ne, Cmp::Lt, Cmp::Le, Cmp::Gt, Cmp::Ge];
    pub fn sym(self) -> &'static str {
        match self {
            Cmp::Eq => "==",
            Cmp::Ne => "!=",
            Cmp::Lt => "<",
            Cmp::Le => "<=",
            Cmp::Gt => ">",
            Cmp::Ge => ">=",
        }
    }
}

#[derive(Clone, Copy, Debug, PartialEq, Eq, Hash, PartialOrd, Ord, Serialize, Deserialize)]
pub enum MacroKind {
    All,
    Exists,
    ExistsOne,
    Filter,
    Map,
    /// three-argument map(x, p, e)
    MapIf,
}

impl MacroKind {
    pub const ALL: [MacroKind; 6] = [
        MacroKind::All,
        MacroKind::Exists,
        MacroKind::ExistsOne,
        MacroKind::Filter,
        MacroKind::Map,
        MacroKind::MapIf,
    ];
    pub fn name(self) -> &'static str {
        match self {
            MacroKind::All => "all",
            MacroKind::Exists => "exists",
            MacroKind::ExistsOne => "exists_one",
            MacroKind::Filter => "filter",
            MacroKind::Map | MacroKind::MapIf => "map",
        }
    }
    pub fn bodies(self) -> usize {
        if self == MacroKind::MapIf {
            2
        } else {
            1
        }
    }
}

/// literals that fail when evaluated (folded by the compiler into failure constants)
#[derive(Clone, Copy, Debug, PartialEq, Eq, Hash, PartialOrd, Ord, Serialize, Deserialize)]
pub enum FailLit {
    DivZero,
    BadIndex,
    TypeErr,
}

impl FailLit {
    pub const ALL: [FailLit; 3] = [FailLit::DivZero, FailLit::BadIndex, FailLit::TypeErr];
    pub fn class(self) -> Class {
        match self {
            FailLit::DivZero => Class::DivideByZero,
            FailLit::BadIndex => Class::Value,
            FailLit::TypeErr => Class::InvalidOp,
        }
    }
    pub fn render(self) -> &'static str {
        match self {
            FailLit::DivZero => "(1 / 0)",
            FailLit::BadIndex => "[1][5]",
            FailLit::TypeErr => "(1 + 'a')",
        }
    }
}

#[derive(Clone, Debug, PartialEq, Eq, Serialize, Deserialize)]
pub enum Pat {
    Any,
    Type(String),
    Cmp(Cmp, E),
}

#[derive(Clone, Debug, PartialEq, Eq, Serialize, Deserialize)]
pub enum E {
    Lit(V),
    FailLit(FailLit),
    /// identifier in value position: bound/unbound variable, loop variable, type name
    Var(String),
    /// call of simulator callback `F<site>(args)`; every call site has its own name
    Call(u16, Vec<E>),
    /// identifier naming a stored program
    Prog(String),
    Not(Box<E>),
    Or(Box<E>, Box<E>),
    And(Box<E>, Box<E>),
    Tern(Box<E>, Box<E>, Box<E>),
    Match(Box<E>, Vec<(Pat, E)>),
    BoolOf(Box<E>),
    Macro(MacroKind, Box<E>, String, Vec<E>),
    /// range.reduce(acc, var, step, seed)
    Reduce(Box<E>, String, String, Box<E>, Box<E>),
    Has(Box<E>),
    Coalesce(Vec<E>),
    Member(Box<E>, String),
    Index(Box<E>, Box<E>),
    List(Vec<E>),
    MapLit(Vec<(String, E)>),
    Add(Box<E>, Box<E>),
    Cmp(Cmp, Box<E>, Box<E>),
    /// f-string: literal segments and expression segments (must evaluate to values string() accepts)
    FStr(Vec<FSeg>),
    /// the wall clock: `now()` (false) or zero-argument `timestamp()` (true)
    Now(bool),
    /// call by name `name(args)`: a function bound under that name wins over a macro
    /// (has/coalesce) and a type constructor (C12)
    NCall(String, Vec<E>),
    /// built-in called as a method, `recv.name(args)`: only its behaviour on a receiver that
    /// fails is modelled (the call fails the same way; what it computes is C15's ground)
    MCall(Box<E>, String, Vec<E>),
}

#[derive(Clone, Debug, PartialEq, Eq, Serialize, Deserialize)]
pub enum FSeg {
    Lit(String),
    Expr(E),
}

pub fn site_name(site: u16) -> String {
    format!("F{}", site)
}

impl E {
    pub fn lit(v: V) -> E {
        E::Lit(v)
    }
    pub fn var(n: &str) -> E {
        E::Var(n.to_string())
    }
    pub fn call(site: u16, args: Vec<E>) -> E {
        E::Call(site, args)
    }
    pub fn not(a: E) -> E {
        E::Not(Box::new(a))
    }
    pub fn or(a: E, b: E) -> E {
        E::Or(Box::new(a), Box::new(b))
    }
    pub fn and(a: E, b: E) -> E {
        E::And(Box::new(a), Box::new(b))
    }
    pub fn tern(c: E, x: E, y: E) -> E {
        E::Tern(Box::new(c), Box::new(x), Box::new(y))
    }
    pub fn mac(k: MacroKind, range: E, var: &str, bodies: Vec<E>) -> E {
        E::Macro(k, Box::new(range), var.to_string(), bodies)
    }

    /// Render as CEL source.  Every operand is parenthesised unless it is atomic, so that
    /// nothing depends on precedence (C02 is not under test); `flat` additionally renders
    /// left-nested `||` / `&&` chains without parentheses so that the shared end label of a
    /// chain is exercised as well as the nested form.
    pub fn render(&self, flat: bool) -> String {
        match self {
            E::Lit(v) => v.render(),
            E::FailLit(f) => f.render().to_string(),
            E::Var(n) => n.clone(),
            E::Call(s, args) => format!(
                "{}({})",
                site_name(*s),
                args.iter().map(|a| a.render(flat)).collect::<Vec<_>>().join(", ")
            ),
            E::Prog(n) => n.clone(),
            E::Not(a) => format!("!{}", a.atom(flat)),
            E::Or(a, b) => {
                let l = if flat && matches!(**a, E::Or(..)) { a.render(flat) } else { a.atom(flat) };
                format!("{} || {}", l, b.atom(flat))
            }
            E::And(a, b) => {
                let l = if flat && matches!(**a, E::And(..)) { a.render(flat) } else { a.atom(flat) };
                format!("{} && {}", l, b.atom(flat))
            }
            E::Tern(c, x, y) => format!("{} ? {} : {}", c.atom(flat), x.atom(flat), y.atom(flat)),
            E::Match(s, cases) => {
                let cs = cases
                    .iter()
                    .map(|(p, e)| {
                        let ps = match p {
                            Pat::Any => "_".to_string(),
                            Pat::Type(t) => t.clone(),
                            Pat::Cmp(op, e) => {
                                if *op == Cmp::Eq {
                                    e.atom(flat)
                                } else {
                                    format!("{} {}", op.sym(), e.atom(flat))
                                }
                            }
                        };
                        format!("case {}: {}", ps, e.atom(flat))
                    })
                    .collect::<Vec<_>>()
                    .join(", ");
                format!("match {} {{ {} }}", s.atom(flat), cs)
            }
            E::BoolOf(a) => format!("bool({})", a.render(flat)),
            E::Macro(k, r, v, bodies) => format!(
                "{}.{}({}, {})",
                r.atom(flat),
                k.name(),
                v,
                bodies.iter().map(|b| b.render(flat)).collect::<Vec<_>>().join(", ")
            ),
            E::Reduce(r, acc, v, step, seed) => format!(
                "{}.reduce({}, {}, {}, {})",
                r.atom(flat),
                acc,
                v,
                step.render(flat),
                seed.render(flat)
            ),
            E::Has(a) => format!("has({})", a.render(flat)),
            E::Coalesce(xs) => format!(
                "coalesce({})",
                xs.iter().map(|a| a.render(flat)).collect::<Vec<_>>().join(", ")
            ),
            E::Member(a, f) => format!("{}.{}", a.receiver(flat), f),
            E::Index(a, i) => format!("{}[{}]", a.atom(flat), i.render(flat)),
            E::List(xs) => format!("[{}]", xs.iter().map(|a| a.render(flat)).collect::<Vec<_>>().join(", ")),
            E::MapLit(kv) => format!(
                "{{{}}}",
                kv.iter()
                    .map(|(k, v)| format!("{}: {}", render_str(k), v.render(flat)))
                    .collect::<Vec<_>>()
                    .join(", ")
            ),
            E::Add(a, b) => format!("{} + {}", a.atom(flat), b.atom(flat)),
            E::Cmp(op, a, b) => format!("{} {} {}", a.atom(flat), op.sym(), b.atom(flat)),
            E::Now(ts) => (if *ts { "timestamp()" } else { "now()" }).to_string(),
            E::NCall(n, args) => format!(
                "{}({})",
                n,
                args.iter().map(|a| a.render(flat)).collect::<Vec<_>>().join(", ")
            ),
            E::MCall(recv, n, args) => format!(
                "{}.{}({})",
                recv.receiver(flat),
                n,
                args.iter().map(|a| a.render(flat)).collect::<Vec<_>>().join(", ")
            ),
            E::FStr(segs) => {
                let mut s = String::from("f\"");
                for seg in segs {
                    match seg {
                        FSeg::Lit(l) => s.push_str(l),
                        FSeg::Expr(e) => {
                            // `{{` and `}}` spell literal braces: an expression that begins or
                            // ends with a brace (a map literal) is parenthesised
                            let t = e.render(flat);
                            s.push('{');
                            if t.starts_with('{') || t.ends_with('}') {
                                s.push('(');
                                s.push_str(&t);
                                s.push(')');
                            } else {
                                s.push_str(&t);
                            }
                            s.push('}');
                        }
                    }
                }
                s.push('"');
                s
            }
        }
    }

    /// receiver of `.member`: a number is parenthesised (`9.size` does not lex as a member)
    fn receiver(&self, flat: bool) -> String {
        let t = self.atom(flat);
        if t.ends_with(|c: char| c.is_ascii_digit()) && matches!(self, E::Lit(_)) {
            format!("({})", t)
        } else {
            t
        }
    }

    fn atom(&self, flat: bool) -> String {
        match self {
            E::Lit(_) | E::FailLit(_) | E::Var(_) | E::Call(..) | E::Prog(_) | E::BoolOf(_) | E::Has(_)
            | E::Coalesce(_) | E::List(_) | E::MapLit(_) | E::FStr(_) | E::Member(..) | E::Index(..) | E::Now(_) | E::NCall(..) | E::MCall(..)
            | E::Macro(..) | E::Reduce(..) => self.render(flat),
            _ => format!("({})", self.render(flat)),
        }
    }

    /// operator skeleton, used for the distinctness measure and violation signatures
    pub fn skeleton(&self) -> String {
        match self {
            E::Lit(v) => format!("lit:{}", v.type_name()),
            E::FailLit(_) => "faillit".into(),
            E::Var(_) => "var".into(),
            E::Call(_, a) => format!("cb/{}", a.len()),
            E::Prog(_) => "prog".into(),
            E::Not(a) => format!("!({})", a.skeleton()),
            E::Or(a, b) => format!("or({},{})", a.skeleton(), b.skeleton()),
            E::And(a, b) => format!("and({},{})", a.skeleton(), b.skeleton()),
            E::Tern(c, x, y) => format!("tern({},{},{})", c.skeleton(), x.skeleton(), y.skeleton()),
            E::Match(s, cs) => format!(
                "match({};{})",
                s.skeleton(),
                cs.iter()
                    .map(|(p, e)| format!(
                        "{}:{}",
                        match p {
                            Pat::Any => "_".to_string(),
                            Pat::Type(_) => "ty".to_string(),
                            Pat::Cmp(op, e) => format!("{}{}", op.sym(), e.skeleton()),
                        },
                        e.skeleton()
                    ))
                    .collect::<Vec<_>>()
                    .join(",")
            ),
            E::BoolOf(a) => format!("bool({})", a.skeleton()),
            E::Macro(k, r, _, b) => format!(
                "{}[{}]({})",
                k.name(),
                r.skeleton(),
                b.iter().map(|x| x.skeleton()).collect::<Vec<_>>().join(",")
            ),
            E::Reduce(r, _, _, s, i) => format!("reduce[{}]({},{})", r.skeleton(), s.skeleton(), i.skeleton()),
            E::Has(a) => format!("has({})", a.skeleton()),
            E::Coalesce(xs) => format!("coalesce({})", xs.iter().map(|x| x.skeleton()).collect::<Vec<_>>().join(",")),
            E::Member(a, _) => format!("{}.f", a.skeleton()),
            E::Index(a, i) => format!("{}[{}]", a.skeleton(), i.skeleton()),
            E::List(xs) => format!("list/{}", xs.len()),
            E::MapLit(kv) => format!("map/{}", kv.len()),
            E::Add(a, b) => format!("add({},{})", a.skeleton(), b.skeleton()),
            E::Cmp(op, a, b) => format!("cmp{}({},{})", op.sym(), a.skeleton(), b.skeleton()),
            E::FStr(s) => format!("fstr/{}", s.len()),
            E::Now(_) => "now".into(),
            E::NCall(n, a) => format!("ncall:{}/{}", n, a.len()),
            E::MCall(r, n, a) => format!("{}.{}/{}", r.skeleton(), n, a.len()),
        }
    }

    /// visit every direct child
    pub fn children(&self) -> Vec<&E> {
        match self {
            E::Lit(_) | E::FailLit(_) | E::Var(_) | E::Prog(_) | E::Now(_) => vec![],
            E::Call(_, a) | E::NCall(_, a) => a.iter().collect(),
            E::MCall(r, _, a) => {
                let mut v: Vec<&E> = vec![r];
                v.extend(a.iter());
                v
            }
            E::Not(a) | E::BoolOf(a) | E::Has(a) => vec![a],
            E::Or(a, b) | E::And(a, b) | E::Add(a, b) | E::Index(a, b) | E::Cmp(_, a, b) => vec![a, b],
            E::Tern(c, x, y) => vec![c, x, y],
            E::Match(s, cs) => {
                let mut v: Vec<&E> = vec![s];
                for (p, e) in cs {
                    if let Pat::Cmp(_, pe) = p {
                        v.push(pe);
                    }
                    v.push(e);
                }
                v
            }
            E::Macro(_, r, _, b) => {
                let mut v: Vec<&E> = vec![r];
                v.extend(b.iter());
                v
            }
            E::Reduce(r, _, _, s, i) => vec![r, s, i],
            E::Coalesce(xs) | E::List(xs) => xs.iter().collect(),
            E::Member(a, _) => vec![a],
            E::MapLit(kv) => kv.iter().map(|(_, v)| v).collect(),
            E::FStr(segs) => segs
                .iter()
                .filter_map(|s| if let FSeg::Expr(e) = s { Some(e) } else { None })
                .collect(),
        }
    }

    pub fn size(&self) -> usize {
        1 + self.children().iter().map(|c| c.size()).sum::<usize>()
    }

    pub fn sites(&self, out: &mut Vec<u16>) {
        if let E::Call(s, _) = self {
            out.push(*s);
        }
        for c in self.children() {
            c.sites(out);
        }
    }
}

/// what the environment answers to one callback invocation
#[derive(Clone, Debug, PartialEq, Eq, Serialize, Deserialize)]
pub enum Answer {
    V(V),
    Fail(Class),
}

/// One explicit ENV case; this is exactly what a replay file stores.
#[derive(Clone, Debug, PartialEq, Eq, Serialize, Deserialize)]
pub struct EnvCase {
    /// program name -> tree; "main" is executed
    pub programs: BTreeMap<String, E>,
    /// bound variables (the bound data tree)
    pub bindings: BTreeMap<String, V>,
    /// site -> answers; the n-th invocation of a site gets answers[n % len]
    pub scripts: BTreeMap<u16, Vec<Answer>>,
    /// render left-nested ||/&& chains flat
    pub flat: bool,
    /// hash keys of the threads the case is executed on (one execution per entry)
    #[serde(with = "hexkeys")]
    pub hash_keys: Vec<[u8; 16]>,
    /// bind the bound tree through bind_params_from_json_obj instead of bind_param
    #[serde(default)]
    pub via_json: bool,
    /// execute on fresh OS threads that are handed `hash_keys` (true), or on the worker's
    /// long-lived thread (false; only for cases whose verdict cannot depend on hash keys -
    /// a violation found that way is re-confirmed with threads before it is reported)
    #[serde(default = "yes")]
    pub threads: bool,
    /// functions bound under arbitrary names (collisions with macros, types, variables): name -> answer
    #[serde(default)]
    pub named: BTreeMap<String, Answer>,
    /// simulated wall clock (ns since the epoch) during the exec, if the case fixes one
    #[serde(default)]
    pub clock_ns: Option<i64>,
    /// history injected before the exec under test, on the same thread (DESIGN.md §12.6):
    /// failed compiles, failed and successful executions; their outcomes are not compared,
    /// they must simply not matter
    #[serde(default)]
    pub pre: Vec<PreOp>,
}

#[derive(Clone, Debug, PartialEq, Eq, Serialize, Deserialize)]
pub struct PreOp {
    /// false: before the case's programs are added; true: after programs and bindings are
    /// set up, right before the exec under test
    pub late: bool,
    /// true: on the case's own context (under a name no program uses) and with the case's
    /// bindings; false: on a scratch context with empty bindings
    pub own: bool,
    pub kind: PreKind,
}

#[derive(Clone, Copy, Debug, PartialEq, Eq, Serialize, Deserialize)]
pub enum PreKind {
    /// add_program_str of a text that does not parse
    BadCompile(u8),
    /// Program::from_source of a text that does not parse (no context involved)
    BadCompileFree(u8),
    /// add and execute a program that fails: unbound name, division by zero, missing key
    FailExec(u8),
    /// add and execute a self-referencing program: runs into the depth limit
    DepthExec(u8),
    /// add and execute a program that succeeds (macros, stored-program reference)
    OkExec(u8),
    /// a sibling context: cloned from the case's context once its programs are added, every
    /// stored program except main re-added with another text there and with its own text
    /// here (the same number of steps on both sides), the sibling's main executed first on
    /// this thread; the sibling stays alive during the exec under test
    SiblingCtx(u8),
    /// a sibling binding set: cloned from the case's bindings, every parameter rebound to
    /// another value there and to its own value here, main executed with the sibling first
    SiblingBind(u8),
    /// every parameter is first bound to a stale value with bind_param, then to its real
    /// value (directly or from JSON, as the case says): the later binding replaces the earlier
    StaleDirect(u8),
    /// the same with the stale values bound from JSON first
    StaleJson(u8),
}

pub const BAD_TEXTS: [&str; 6] = ["1 +", "(", "[1, 2", "x ? 1", "'abc", "1 2"];
pub const FAIL_TEXTS: [&str; 5] = ["nobody_binds_this_name", "1 / 0", "{'a': 1}.b", "[1][7]", "nobody_a || nobody_b"];
pub const DEPTH_TEXTS: [&str; 4] = ["zz_pre + 1", "[1].map(v, zz_pre)[0]", "coalesce(zz_pre, 1)", "f'{zz_pre}'"];
pub const OK_TEXTS: [&str; 5] = ["[1, 2, 3].map(v, v + 1)", "{'b': 1, 'a': 2}.map(k, k)", "[1, 2].all(v, v > 0) ? 'y' : 'n'", "coalesce(nobody_here, 4)", "has({'a': 1}.a)"];

fn yes() -> bool {
    true
}

impl EnvCase {
    pub fn sources(&self) -> BTreeMap<String, String> {
        self.programs.iter().map(|(k, e)| (k.clone(), e.render(self.flat))).collect()
    }
    pub fn skeleton(&self) -> String {
        self.programs
            .iter()
            .map(|(k, e)| format!("{}={}", k, e.skeleton()))
            .collect::<Vec<_>>()
            .join(";")
    }
}

mod hexkeys {
    use serde::{Deserialize, Deserializer, Serializer};
    pub fn serialize<S: Serializer>(v: &Vec<[u8; 16]>, s: S) -> Result<S::Ok, S::Error> {
        let strs: Vec<String> = v.iter().map(|k| k.iter().map(|b| format!("{:02x}", b)).collect()).collect();
        s.collect_seq(strs)
    }
    pub fn deserialize<'de, D: Deserializer<'de>>(d: D) -> Result<Vec<[u8; 16]>, D::Error> {
        let strs: Vec<String> = Vec::deserialize(d)?;
        let mut out = vec![];
        for h in strs {
            let mut k = [0u8; 16];
            if h.len() != 32 {
                return Err(serde::de::Error::custom("hash key must be 32 hex digits"));
            }
            for i in 0..16 {
                k[i] = u8::from_str_radix(&h[2 * i..2 * i + 2], 16).map_err(serde::de::Error::custom)?;
            }
            out.push(k);
        }
        Ok(out)
    }
}
