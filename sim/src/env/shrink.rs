//! ENV engine: minimisation of a failing case while the violation signature stays the same.

use super::ast::*;
use crate::val::V;

fn rebuild(e: &E, mut ch: Vec<E>) -> E {
    let mut next = || ch.remove(0);
    match e {
        E::Lit(_) | E::FailLit(_) | E::Var(_) | E::Prog(_) | E::Now(_) => e.clone(),
        E::Call(s, a) => E::Call(*s, a.iter().map(|_| next()).collect()),
        E::NCall(n, a) => E::NCall(n.clone(), a.iter().map(|_| next()).collect()),
        E::MCall(_, n, a) => {
            let r = next();
            E::MCall(Box::new(r), n.clone(), a.iter().map(|_| next()).collect())
        }
        E::Not(_) => E::Not(Box::new(next())),
        E::BoolOf(_) => E::BoolOf(Box::new(next())),
        E::Has(_) => E::Has(Box::new(next())),
        E::Or(..) => {
            let a = next();
            let b = next();
            E::or(a, b)
        }
        E::And(..) => {
            let a = next();
            let b = next();
            E::and(a, b)
        }
        E::Add(..) => {
            let a = next();
            let b = next();
            E::Add(Box::new(a), Box::new(b))
        }
        E::Index(..) => {
            let a = next();
            let b = next();
            E::Index(Box::new(a), Box::new(b))
        }
        E::Cmp(op, ..) => {
            let a = next();
            let b = next();
            E::Cmp(*op, Box::new(a), Box::new(b))
        }
        E::Tern(..) => {
            let a = next();
            let b = next();
            let c = next();
            E::tern(a, b, c)
        }
        E::Match(_, cs) => {
            let s = next();
            let mut out = vec![];
            for (p, _) in cs {
                let p2 = match p {
                    Pat::Cmp(op, _) => Pat::Cmp(*op, next()),
                    other => other.clone(),
                };
                out.push((p2, next()));
            }
            E::Match(Box::new(s), out)
        }
        E::Macro(k, _, v, b) => {
            let r = next();
            E::Macro(*k, Box::new(r), v.clone(), b.iter().map(|_| next()).collect())
        }
        E::Reduce(_, a, v, _, _) => {
            let r = next();
            let s = next();
            let i = next();
            E::Reduce(Box::new(r), a.clone(), v.clone(), Box::new(s), Box::new(i))
        }
        E::Coalesce(xs) => E::Coalesce(xs.iter().map(|_| next()).collect()),
        E::List(xs) => E::List(xs.iter().map(|_| next()).collect()),
        E::Member(_, f) => E::Member(Box::new(next()), f.clone()),
        E::MapLit(kv) => E::MapLit(kv.iter().map(|(k, _)| (k.clone(), next())).collect()),
        E::FStr(segs) => E::FStr(
            segs.iter()
                .map(|s| match s {
                    FSeg::Lit(l) => FSeg::Lit(l.clone()),
                    FSeg::Expr(_) => FSeg::Expr(next()),
                })
                .collect(),
        ),
    }
}

fn shrink_value(v: &V) -> Vec<V> {
    match v {
        V::List(xs) if !xs.is_empty() => {
            let mut out = vec![];
            // halves, then single removals
            if xs.len() > 2 {
                out.push(V::List(xs[..xs.len() / 2].to_vec()));
                out.push(V::List(xs[xs.len() / 2..].to_vec()));
            }
            for i in 0..xs.len().min(8) {
                let mut y = xs.clone();
                y.remove(i);
                out.push(V::List(y));
            }
            out
        }
        V::Map(m) if !m.is_empty() => {
            let mut out = vec![];
            for k in m.keys().take(8) {
                let mut y = m.clone();
                y.remove(k);
                out.push(V::Map(y));
            }
            out
        }
        _ => vec![],
    }
}

/// all single-step simplifications of the tree
pub fn variants(e: &E) -> Vec<E> {
    let mut out = vec![];
    let ch: Vec<E> = e.children().into_iter().cloned().collect();
    // hoist a child
    for c in ch.iter() {
        out.push(c.clone());
    }
    // node-local simplifications
    match e {
        E::Lit(v) => {
            for s in shrink_value(v) {
                out.push(E::Lit(s));
            }
        }
        E::Coalesce(xs) | E::List(xs) if !xs.is_empty() => {
            for i in 0..xs.len() {
                let mut y = xs.clone();
                y.remove(i);
                out.push(if matches!(e, E::Coalesce(_)) { E::Coalesce(y) } else { E::List(y) });
            }
        }
        E::Match(s, cs) if !cs.is_empty() => {
            for i in 0..cs.len() {
                let mut y = cs.clone();
                y.remove(i);
                out.push(E::Match(s.clone(), y));
            }
        }
        E::Macro(MacroKind::MapIf, r, v, b) => {
            out.push(E::Macro(MacroKind::Map, r.clone(), v.clone(), vec![b[1].clone()]));
            out.push(E::Macro(MacroKind::Filter, r.clone(), v.clone(), vec![b[0].clone()]));
        }
        _ => {}
    }
    if !matches!(e, E::Lit(_) | E::Var(_)) {
        for a in [V::Bool(true), V::Bool(false), V::Null, V::Int(1)] {
            out.push(E::Lit(a));
        }
    }
    // recurse
    for (i, c) in ch.iter().enumerate() {
        for v in variants(c) {
            let mut ch2 = ch.clone();
            ch2[i] = v;
            out.push(rebuild(e, ch2));
        }
    }
    out
}

fn used_sites(case: &EnvCase) -> Vec<u16> {
    let mut s = vec![];
    for e in case.programs.values() {
        e.sites(&mut s);
    }
    s
}

fn used_names(e: &E, out: &mut Vec<String>) {
    match e {
        E::Var(n) | E::Prog(n) => out.push(n.clone()),
        _ => {}
    }
    for c in e.children() {
        used_names(c, out);
    }
}

pub fn case_variants(case: &EnvCase) -> Vec<EnvCase> {
    let mut out = vec![];
    // fewer hash-key sets
    if case.hash_keys.len() > 1 {
        let mut c = case.clone();
        c.hash_keys.truncate(1);
        out.push(c);
        let mut c = case.clone();
        c.hash_keys.truncate(2);
        if c.hash_keys.len() < case.hash_keys.len() {
            out.push(c);
        }
    }
    if case.via_json {
        let mut c = case.clone();
        c.via_json = false;
        out.push(c);
    }
    if case.threads && case.hash_keys.len() <= 1 {
        let mut c = case.clone();
        c.threads = false;
        out.push(c);
    }
    // drop unused scripts, bindings, programs
    let sites = used_sites(case);
    let mut names = vec![];
    for e in case.programs.values() {
        used_names(e, &mut names);
    }
    {
        let mut c = case.clone();
        c.scripts.retain(|k, _| sites.contains(k));
        c.bindings.retain(|k, _| names.contains(k));
        c.programs.retain(|k, _| k == "main" || names.contains(k));
        if c != *case {
            out.push(c);
        }
    }
    // inline / simplify programs
    for (name, e) in case.programs.iter() {
        for v in variants(e) {
            let mut c = case.clone();
            c.programs.insert(name.clone(), v);
            out.push(c);
        }
    }
    // simplify bound values
    for (k, v) in case.bindings.iter() {
        for s in shrink_value(v) {
            let mut c = case.clone();
            c.bindings.insert(k.clone(), s);
            out.push(c);
        }
        if !matches!(v, V::Int(_) | V::Bool(_) | V::Null) {
            let mut c = case.clone();
            c.bindings.insert(k.clone(), V::Int(1));
            out.push(c);
        }
    }
    // simplify scripts
    for (s, sc) in case.scripts.iter() {
        if sc.len() > 1 {
            let mut c = case.clone();
            c.scripts.insert(*s, sc[..sc.len() / 2].to_vec());
            out.push(c);
            let mut c = case.clone();
            c.scripts.insert(*s, sc[..1].to_vec());
            out.push(c);
        }
        for (i, a) in sc.iter().enumerate().take(6) {
            match a {
                Answer::Fail(_) => {
                    let mut c = case.clone();
                    let mut sc2 = sc.clone();
                    sc2[i] = Answer::V(V::Bool(true));
                    c.scripts.insert(*s, sc2);
                    out.push(c);
                }
                Answer::V(v) if !matches!(v, V::Bool(_)) => {
                    for nv in [V::Bool(true), V::Bool(false)] {
                        let mut c = case.clone();
                        let mut sc2 = sc.clone();
                        sc2[i] = Answer::V(nv);
                        c.scripts.insert(*s, sc2);
                        out.push(c);
                    }
                }
                _ => {}
            }
        }
    }
    if case.flat {
        let mut c = case.clone();
        c.flat = false;
        out.push(c);
    }
    // drop injected history
    if !case.pre.is_empty() {
        let mut c = case.clone();
        c.pre.clear();
        out.push(c);
        for i in 0..case.pre.len() {
            let mut c = case.clone();
            c.pre.remove(i);
            out.push(c);
        }
    }
    out
}

pub fn case_size(case: &EnvCase) -> usize {
    let progs: usize = case.programs.values().map(|e| e.size() * 4 + e.render(false).len()).sum();
    let binds: usize = case.bindings.values().map(|v| v.to_string().len() + 2).sum();
    let scripts: usize = case.scripts.values().map(|s| s.len() * 3 + 1).sum();
    progs + binds + scripts + case.pre.len() * 5 + case.hash_keys.len() * 2 + case.via_json as usize + case.flat as usize + case.threads as usize
}

/// Greedy minimisation: repeatedly take the first strictly smaller variant that still fails
/// with the same signature.
pub fn minimise(case: &EnvCase, sig: &str, test: &dyn Fn(&EnvCase) -> Option<String>, budget: usize) -> (EnvCase, usize) {
    let mut cur = case.clone();
    let mut tried = 0usize;
    'outer: loop {
        let cur_size = case_size(&cur);
        let mut vs = case_variants(&cur);
        vs.retain(|v| case_size(v) < cur_size);
        vs.sort_by_key(case_size);
        for v in vs {
            if tried >= budget {
                break 'outer;
            }
            tried += 1;
            if test(&v).as_deref() == Some(sig) {
                cur = v;
                continue 'outer;
            }
        }
        break;
    }
    (cur, tried)
}
