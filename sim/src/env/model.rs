//! Reference lazy evaluator of the ENV engine (DESIGN.md §3.3).
//!
//! It contains a rule only where a statement of C05/C07/C08 gives one.  Where the statements
//! are silent it raises `Silent` (the case is then counted, its observed call history is kept
//! as coverage, but nothing is compared) or returns an explicit set of acceptable outcomes.
//! It produces the expected *call history* of the simulator-owned callbacks and the expected
//! result.

use super::ast::*;
use crate::val::{Class, V};
use serde::{Deserialize, Serialize};
use std::collections::BTreeMap;

#[derive(Clone, Debug, PartialEq, Eq, Serialize, Deserialize)]
pub struct Event {
    pub site: u16,
    pub ordinal: u32,
    pub args: Vec<V>,
}

/// Expected outcome of a (sub)expression.
#[derive(Clone, Debug, PartialEq, Eq, Serialize, Deserialize)]
pub enum MO {
    Val(V),
    /// a failure of one of these classes; empty = any class
    Fail(Vec<Class>),
    /// the statements allow several outcomes here
    AnyOf(Vec<MO>),
}

impl MO {
    pub fn accepts(&self, o: &crate::val::Outcome) -> bool {
        use crate::val::Outcome;
        match (self, o) {
            (MO::Val(a), Outcome::Val(b)) => a == b,
            // the statements tell absence (unbound name, missing field/key) from every other
            // failure and nothing more: which class or wording a type error, a bad index or a
            // propagated failure carries is not theirs to fix, so classes are compared only
            // up to that partition
            (MO::Fail(cs), Outcome::Fail(c, _)) => cs.is_empty() || cs.iter().any(|x| x.is_absent() == c.is_absent()),
            (MO::AnyOf(alts), o) => alts.iter().any(|a| a.accepts(o)),
            _ => false,
        }
    }
    pub fn brief(&self) -> String {
        match self {
            MO::Val(v) => format!("{}", v),
            MO::Fail(c) if c.is_empty() => "FAIL<any>".into(),
            MO::Fail(c) => format!("FAIL<{:?}>", c),
            MO::AnyOf(a) => format!("one of [{}]", a.iter().map(|x| x.brief()).collect::<Vec<_>>().join(" | ")),
        }
    }
}

#[derive(Clone, Debug)]
pub struct Silent(pub &'static str);

pub const TYPE_NAMES: [&str; 12] = [
    "bool", "int", "uint", "float", "double", "string", "bytes", "type", "timestamp", "duration", "null_type",
    "dyn",
];

pub fn type_value(name: &str) -> Option<V> {
    if !TYPE_NAMES.contains(&name) {
        return None;
    }
    Some(V::Type(if name == "double" { "float".to_string() } else { name.to_string() }))
}

pub struct Model<'a> {
    pub case: &'a EnvCase,
    /// visiting order of map keys as learnt from the implementation (the statement fixes
    /// "one order", not which), keyed by the canonical text of the map value
    pub map_orders: &'a BTreeMap<String, Vec<String>>,
    scopes: Vec<(String, V)>,
    counts: BTreeMap<u16, u32>,
    pub log: Vec<Event>,
    depth: u32,
    /// rare-condition probes fired while evaluating (name -> count)
    pub probes: BTreeMap<&'static str, u64>,
}

type R = Result<MO, Silent>;

fn may_fail(e: &E, case: &EnvCase) -> bool {
    match e {
        E::FailLit(_) => true,
        E::Call(s, _) => case
            .scripts
            .get(s)
            .map(|a| a.iter().any(|x| matches!(x, Answer::Fail(_))))
            .unwrap_or(false),
        E::Var(n) => !case.bindings.contains_key(n) && type_value(n).is_none(),
        _ => e.children().iter().any(|c| may_fail(c, case)),
    }
}

pub fn compare(op: Cmp, a: &V, b: &V) -> Option<bool> {
    use std::cmp::Ordering;
    let ord: Option<Ordering> = match (a, b) {
        (V::Int(x), V::Int(y)) => Some(x.cmp(y)),
        (V::UInt(x), V::UInt(y)) => Some(x.cmp(y)),
        (V::Str(x), V::Str(y)) => Some(x.cmp(y)),
        (V::Bool(x), V::Bool(y)) => Some(x.cmp(y)),
        _ => None,
    };
    if let Some(o) = ord {
        return Some(match op {
            Cmp::Eq => o == Ordering::Equal,
            Cmp::Ne => o != Ordering::Equal,
            Cmp::Lt => o == Ordering::Less,
            Cmp::Le => o != Ordering::Greater,
            Cmp::Gt => o == Ordering::Greater,
            Cmp::Ge => o != Ordering::Less,
        });
    }
    // == / != across unrelated kinds is plain "not equal"; numeric cross-type comparison
    // and ordering across types belong to C04 and are not modelled
    let numeric = |v: &V| matches!(v, V::Int(_) | V::UInt(_) | V::F(_) | V::Bool(_));
    let simple = |v: &V| matches!(v, V::Int(_) | V::UInt(_) | V::Bool(_) | V::Str(_) | V::Null | V::Bytes(_));
    if matches!(op, Cmp::Eq | Cmp::Ne) && simple(a) && simple(b) && !(numeric(a) && numeric(b)) {
        let eq = match (a, b) {
            (V::Null, V::Null) => true,
            (V::Bytes(x), V::Bytes(y)) => x == y,
            _ => false,
        };
        return Some(if op == Cmp::Eq { eq } else { !eq });
    }
    None
}

fn union(a: &[Class], b: &[Class]) -> Vec<Class> {
    if a.is_empty() || b.is_empty() {
        return vec![];
    }
    let mut v = a.to_vec();
    for c in b {
        if !v.contains(c) {
            v.push(*c);
        }
    }
    v
}

pub fn is_bool_spelling(s: &str) -> bool {
    matches!(s, "1" | "t" | "true" | "TRUE" | "True" | "0" | "f" | "false" | "FALSE" | "False")
}

impl<'a> Model<'a> {
    pub fn new(case: &'a EnvCase, map_orders: &'a BTreeMap<String, Vec<String>>) -> Model<'a> {
        Model {
            case,
            map_orders,
            scopes: vec![],
            counts: BTreeMap::new(),
            log: vec![],
            depth: 0,
            probes: BTreeMap::new(),
        }
    }

    fn probe(&mut self, name: &'static str) {
        *self.probes.entry(name).or_insert(0) += 1;
    }

    pub fn run(&mut self) -> R {
        let main = self.case.programs.get("main").ok_or(Silent("no main"))?;
        self.eval(main)
    }

    /// evaluate and insist on a definite outcome (no AnyOf) because the caller's control
    /// flow depends on it
    fn definite(&mut self, e: &E) -> R {
        match self.eval(e)? {
            MO::AnyOf(_) => Err(Silent("control flow depends on an outcome the statements leave open")),
            MO::Fail(c) if c.is_empty() && false => unreachable!(),
            o => Ok(o),
        }
    }

    fn lookup_var(&self, n: &str) -> Option<V> {
        for (k, v) in self.scopes.iter().rev() {
            if k == n {
                return Some(v.clone());
            }
        }
        None
    }

    pub fn eval(&mut self, e: &E) -> R {
        match e {
            E::Lit(v) => Ok(MO::Val(v.clone())),
            E::FailLit(f) => Ok(MO::Fail(vec![f.class()])),
            E::Var(n) => {
                // C12 order: type name, bound variable (loop variables are bindings of the
                // body's scope), stored program, else unbound
                if let Some(t) = type_value(n) {
                    return Ok(MO::Val(t));
                }
                if let Some(v) = self.lookup_var(n) {
                    return Ok(MO::Val(v));
                }
                if let Some(v) = self.case.bindings.get(n) {
                    return Ok(MO::Val(v.clone()));
                }
                if self.case.programs.contains_key(n) && n != "main" {
                    return self.eval_prog(n);
                }
                Ok(MO::Fail(vec![Class::Binding]))
            }
            E::Prog(n) => {
                if type_value(n).is_some() || self.lookup_var(n).is_some() || self.case.bindings.contains_key(n) {
                    return Err(Silent("program name shadowed"));
                }
                if !self.case.programs.contains_key(n) {
                    return Ok(MO::Fail(vec![Class::Binding]));
                }
                self.eval_prog(n)
            }
            E::Call(site, args) => {
                let mut vals = vec![];
                for a in args {
                    match self.definite(a)? {
                        MO::Val(v) => vals.push(v),
                        _ => return Err(Silent("failing callback argument (no statement says what a call does then)")),
                    }
                }
                let ord = {
                    let c = self.counts.entry(*site).or_insert(0);
                    let o = *c;
                    *c += 1;
                    o
                };
                self.log.push(Event { site: *site, ordinal: ord, args: vals });
                let script = self.case.scripts.get(site).ok_or(Silent("no script for site"))?;
                if script.is_empty() {
                    return Err(Silent("empty script"));
                }
                Ok(match &script[ord as usize % script.len()] {
                    Answer::V(v) => MO::Val(v.clone()),
                    Answer::Fail(c) => MO::Fail(vec![*c]),
                })
            }
            E::Not(a) => Ok(match self.definite(a)? {
                MO::Val(v) => MO::Val(V::Bool(!v.truthy())),
                f => f,
            }),
            E::Or(a, b) => {
                let l = self.definite(a)?;
                if let MO::Val(v) = &l {
                    if v.truthy() {
                        if may_fail(b, self.case) {
                            self.probe("or_skips_possibly_failing_rhs");
                        }
                        return Ok(MO::Val(V::Bool(true)));
                    }
                }
                let r = self.definite(b)?;
                Ok(match (&l, &r) {
                    (_, MO::Val(v)) if v.truthy() => {
                        if matches!(l, MO::Fail(_)) {
                            self.probe("or_absorbs_failing_lhs");
                        }
                        MO::Val(V::Bool(true))
                    }
                    (MO::Fail(x), MO::Fail(y)) => {
                        self.probe("or_both_fail");
                        MO::Fail(union(x, y))
                    }
                    (MO::Fail(x), _) => MO::Fail(x.clone()),
                    (_, MO::Fail(y)) => MO::Fail(y.clone()),
                    _ => MO::Val(V::Bool(false)),
                })
            }
            E::And(a, b) => {
                let l = self.definite(a)?;
                match &l {
                    MO::Fail(_) => {
                        self.probe("and_stops_on_failing_lhs");
                        return Ok(l);
                    }
                    MO::Val(v) if !v.truthy() => {
                        if may_fail(b, self.case) {
                            self.probe("and_skips_possibly_failing_rhs");
                        }
                        return Ok(MO::Val(V::Bool(false)));
                    }
                    _ => {}
                }
                Ok(match self.definite(b)? {
                    MO::Val(v) => MO::Val(V::Bool(v.truthy())),
                    f => f,
                })
            }
            E::Tern(c, x, y) => match self.definite(c)? {
                MO::Fail(cl) => {
                    self.probe("ternary_failing_condition");
                    Ok(MO::Fail(cl))
                }
                MO::Val(v) => {
                    if !matches!(v, V::Bool(_)) {
                        self.probe("ternary_nonbool_condition");
                    }
                    if v.truthy() {
                        self.eval(x)
                    } else {
                        self.eval(y)
                    }
                }
                MO::AnyOf(_) => unreachable!(),
            },
            E::Match(s, cases) => {
                let sv = match self.definite(s)? {
                    MO::Val(v) => v,
                    _ => return Err(Silent("failing match scrutinee")),
                };
                for (i, (p, arm)) in cases.iter().enumerate() {
                    let hit = match p {
                        Pat::Any => true,
                        Pat::Type(t) => {
                            let want = type_value(t).ok_or(Silent("unknown type pattern"))?;
                            V::Type(sv.type_name().to_string()) == want
                        }
                        Pat::Cmp(op, pe) => match self.definite(pe)? {
                            MO::Val(pv) => compare(*op, &sv, &pv).ok_or(Silent("cross-type match pattern"))?,
                            _ => return Err(Silent("failing match pattern")),
                        },
                    };
                    if hit {
                        if i + 1 < cases.len() {
                            self.probe("match_skips_later_cases");
                        }
                        return self.eval(arm);
                    }
                }
                self.probe("match_no_case");
                Ok(MO::Val(V::Null))
            }
            E::BoolOf(a) => Ok(match self.definite(a)? {
                MO::Val(V::Str(s)) if is_bool_spelling(&s) => {
                    return Err(Silent("bool() of a boolean spelling is C14's ground"))
                }
                MO::Val(v) => MO::Val(V::Bool(v.truthy())),
                f => f,
            }),
            E::Macro(kind, range, var, bodies) => self.eval_macro(*kind, range, var, bodies),
            E::Reduce(range, acc, var, step, seed) => {
                let r = self.definite(range)?;
                // the seed is evaluated once, before any element
                let mut cur = match self.definite(seed)? {
                    MO::Val(v) => v,
                    f => return Ok(f),
                };
                let xs = match r {
                    MO::Val(V::List(xs)) => xs,
                    _ => return Ok(MO::Fail(vec![])),
                };
                if acc == var {
                    return Err(Silent("reduce with identical accumulator and element names"));
                }
                if xs.len() > 32 {
                    self.probe("list_over_32");
                }
                for x in xs {
                    self.scopes.push((var.clone(), x));
                    self.scopes.push((acc.clone(), cur));
                    let r = self.definite(step);
                    self.scopes.pop();
                    self.scopes.pop();
                    cur = match r? {
                        MO::Val(v) => v,
                        f => {
                            self.probe("macro_body_fails");
                            return Ok(f);
                        }
                    };
                }
                Ok(MO::Val(cur))
            }
            E::Has(a) => Ok(match self.eval(a)? {
                MO::Val(v) => {
                    if v == V::Null {
                        self.probe("has_on_null");
                    }
                    MO::Val(V::Bool(true))
                }
                MO::Fail(cs) => {
                    if cs.is_empty() {
                        MO::AnyOf(vec![MO::Val(V::Bool(false)), MO::Fail(vec![])])
                    } else if cs.iter().all(|c| c.is_absent()) {
                        self.probe("has_absent");
                        MO::Val(V::Bool(false))
                    } else if cs.iter().all(|c| !c.is_absent()) {
                        self.probe("has_propagates_failure");
                        MO::Fail(cs)
                    } else {
                        let other: Vec<Class> = cs.iter().cloned().filter(|c| !c.is_absent()).collect();
                        MO::AnyOf(vec![MO::Val(V::Bool(false)), MO::Fail(other)])
                    }
                }
                MO::AnyOf(_) => return Err(Silent("has over an open outcome")),
            }),
            E::Coalesce(xs) => {
                for (i, x) in xs.iter().enumerate() {
                    match self.definite(x)? {
                        MO::Val(V::Null) => {
                            self.probe("coalesce_skips_null");
                        }
                        MO::Val(v) => {
                            if i + 1 < xs.len() {
                                self.probe("coalesce_stops_before_last");
                                if xs[i + 1..].iter().any(|e| may_fail(e, self.case)) {
                                    self.probe("coalesce_skips_possibly_failing_arg");
                                }
                            }
                            return Ok(MO::Val(v));
                        }
                        MO::Fail(cs) => {
                            if cs.is_empty() {
                                return Err(Silent("coalesce over a failure of unknown class"));
                            } else if cs.iter().all(|c| c.is_absent()) {
                                self.probe("coalesce_skips_absent");
                            } else if cs.iter().all(|c| !c.is_absent()) {
                                self.probe("coalesce_propagates_failure");
                                return Ok(MO::Fail(cs));
                            } else {
                                return Err(Silent("coalesce over a failure of mixed classes"));
                            }
                        }
                        MO::AnyOf(_) => unreachable!(),
                    }
                }
                self.probe("coalesce_nothing_qualifies");
                Ok(MO::Val(V::Null))
            }
            E::Member(a, f) => Ok(match self.definite(a)? {
                MO::Val(V::Map(m)) => match m.get(f) {
                    Some(v) => MO::Val(v.clone()),
                    None => MO::Fail(vec![Class::Attribute]),
                },
                // a field of a value that has no fields (null, number, string, list, ...) is an
                // absent field: C08 lists "intermediate not a map" among the absence
                // configurations next to "leaf missing" (DESIGN.md §12.3)
                MO::Val(_) => MO::Fail(vec![Class::Attribute]),
                f => f,
            }),
            E::Index(a, i) => {
                let o = self.definite(a)?;
                let ix = self.definite(i)?;
                let (ov, iv) = match (o, ix) {
                    (MO::Fail(mut c), MO::Fail(d)) => {
                        c.extend(d);
                        return Ok(MO::Fail(c));
                    }
                    (MO::Fail(c), _) => return Ok(MO::Fail(c)),
                    (_, MO::Fail(c)) => return Ok(MO::Fail(c)),
                    (MO::Val(o), MO::Val(i)) => (o, i),
                    _ => unreachable!(),
                };
                Ok(match (&ov, &iv) {
                    (V::List(xs), V::Int(i)) => {
                        let n = xs.len() as i64;
                        if *i >= 0 && *i < n {
                            MO::Val(xs[*i as usize].clone())
                        } else if *i < 0 && -*i <= n {
                            // negative indices: documented as optional feature; not under test
                            return Err(Silent("negative list index"));
                        } else {
                            MO::Fail(vec![Class::Value])
                        }
                    }
                    (V::List(xs), V::UInt(i)) => {
                        if (*i as usize) < xs.len() {
                            MO::Val(xs[*i as usize].clone())
                        } else {
                            MO::Fail(vec![Class::Value])
                        }
                    }
                    (V::Map(m), V::Str(k)) => match m.get(k) {
                        Some(v) => MO::Val(v.clone()),
                        None => MO::Fail(vec![Class::Attribute]),
                    },
                    // wrong index type or a non-container: a failure, class left open
                    _ => MO::Fail(vec![]),
                })
            }
            E::List(xs) => {
                let mut out = vec![];
                for x in xs {
                    match self.definite(x)? {
                        MO::Val(v) => out.push(v),
                        _ => return Err(Silent("failing element inside a list literal")),
                    }
                }
                Ok(MO::Val(V::List(out)))
            }
            E::MapLit(kv) => {
                let mut out = BTreeMap::new();
                for (k, x) in kv {
                    match self.definite(x)? {
                        MO::Val(v) => {
                            if out.insert(k.clone(), v).is_some() {
                                return Err(Silent("duplicate map key"));
                            }
                        }
                        _ => return Err(Silent("failing value inside a map literal")),
                    }
                }
                Ok(MO::Val(V::Map(out)))
            }
            E::Add(a, b) => {
                let l = self.definite(a)?;
                let r = self.definite(b)?;
                Ok(match (l, r) {
                    // both operands fail: no statement says which failure is reported
                    (MO::Fail(mut c), MO::Fail(d)) => {
                        c.extend(d);
                        MO::Fail(c)
                    }
                    (MO::Fail(c), _) => MO::Fail(c),
                    (_, MO::Fail(c)) => MO::Fail(c),
                    (MO::Val(V::Int(x)), MO::Val(V::Int(y))) => match x.checked_add(y) {
                        Some(s) if s.abs() < (1 << 40) => MO::Val(V::Int(s)),
                        _ => return Err(Silent("large sum")),
                    },
                    (MO::Val(V::Str(x)), MO::Val(V::Str(y))) => MO::Val(V::Str(format!("{}{}", x, y))),
                    (MO::Val(V::List(mut x)), MO::Val(V::List(y))) => {
                        x.extend(y);
                        MO::Val(V::List(x))
                    }
                    _ => return Err(Silent("addition across types")),
                })
            }
            E::Cmp(op, a, b) => {
                let l = self.definite(a)?;
                let r = self.definite(b)?;
                Ok(match (l, r) {
                    // both operands fail: no statement says which failure is reported
                    (MO::Fail(mut c), MO::Fail(d)) => {
                        c.extend(d);
                        MO::Fail(c)
                    }
                    (MO::Fail(c), _) => MO::Fail(c),
                    (_, MO::Fail(c)) => MO::Fail(c),
                    (MO::Val(x), MO::Val(y)) => {
                        MO::Val(V::Bool(compare(*op, &x, &y).ok_or(Silent("comparison across types"))?))
                    }
                    _ => unreachable!(),
                })
            }
            E::FStr(segs) => {
                // every segment is evaluated (no statement lets a failing segment stop the
                // others); if any fails the f-string fails, with whichever of the failures
                let mut out = String::new();
                let mut failed: Vec<Class> = vec![];
                let mut any_failed = false;
                for s in segs {
                    match s {
                        FSeg::Lit(l) => out.push_str(l),
                        FSeg::Expr(e) => match self.definite(e)? {
                            MO::Val(V::Str(s)) => out.push_str(&s),
                            MO::Val(V::Int(i)) => out.push_str(&i.to_string()),
                            MO::Val(_) => return Err(Silent("f-string segment of a type C14 owns")),
                            MO::Fail(cs) => {
                                any_failed = true;
                                if cs.is_empty() {
                                    return Err(Silent("f-string segment failing in an unstated way"));
                                }
                                failed.extend(cs);
                            }
                            MO::AnyOf(_) => return Err(Silent("f-string over an open outcome")),
                        },
                    }
                }
                if any_failed {
                    Ok(MO::Fail(failed))
                } else {
                    Ok(MO::Val(V::Str(out)))
                }
            }
            // C05/C07/C08 say nothing about the wall clock or about which binding a colliding
            // name resolves to (C09 / C12): no rule here, the case is run but not compared
            E::Now(_) => Err(Silent("wall clock read (C09's ground)")),
            // a conversion whose argument fails fails the same way (absent stays absent); what
            // it converts a value to is C14's ground; under a caller's function of that name
            // it is C12's
            E::NCall(n, args) if args.len() == 1 && !self.case.named.contains_key(n) && type_value(n).is_some() => match self.definite(&args[0])? {
                MO::Fail(cs) if !cs.is_empty() => Ok(MO::Fail(cs)),
                _ => Err(Silent("conversion of a value (C14's ground)")),
            },
            // a numeric built-in applied to a string or a list: a type error, i.e. a failure other
            // than absence (C08: has/coalesce propagate it)
            E::NCall(n, args) if args.len() == 1 && !self.case.named.contains_key(n) && ["abs", "floor", "ceil", "sqrt"].contains(&n.as_str()) => match self.definite(&args[0])? {
                MO::Fail(cs) if !cs.is_empty() => Ok(MO::Fail(cs)),
                MO::Val(V::Str(_)) | MO::Val(V::List(_)) => Ok(MO::Fail(vec![Class::Argument, Class::Value, Class::InvalidOp])),
                _ => Err(Silent("numeric built-in on a number (C15's ground)")),
            },
            E::NCall(..) => Err(Silent("call by a colliding name (C12's ground)")),
            // a method of a receiver that fails fails the same way (so an absent receiver
            // stays absent); on a receiver that evaluates, what the built-in computes is
            // C15's ground
            E::MCall(recv, _, _) => match self.definite(recv)? {
                // absent stays absent; any other failure stays a failure other than absence
                // (of which class is not stated)
                MO::Fail(cs) if !cs.is_empty() && cs.iter().all(|c| c.is_absent()) => Ok(MO::Fail(cs)),
                MO::Fail(cs) if !cs.is_empty() && cs.iter().all(|c| !c.is_absent()) => Ok(MO::Fail(vec![
                    Class::Misc,
                    Class::Value,
                    Class::Argument,
                    Class::InvalidOp,
                    Class::Runtime,
                    Class::DivideByZero,
                    Class::Internal,
                ])),
                MO::Fail(_) => Err(Silent("method on a receiver failing in an unstated way")),
                _ => Err(Silent("built-in method on a value (C15's ground)")),
            },
        }
    }

    fn eval_prog(&mut self, n: &str) -> R {
        if self.depth >= 8 {
            return Err(Silent("deep program reference chain (C12's ground)"));
        }
        let body = self.case.programs.get(n).unwrap().clone();
        self.depth += 1;
        self.probe("stored_program_evaluated");
        let r = self.eval(&body);
        self.depth -= 1;
        r
    }

    fn eval_macro(&mut self, kind: MacroKind, range: &E, var: &str, bodies: &[E]) -> R {
        if bodies.len() != kind.bodies() {
            return Err(Silent("macro arity"));
        }
        let elems: Vec<V> = match self.definite(range)? {
            MO::Val(V::List(xs)) => xs,
            MO::Val(V::Map(m)) if matches!(kind, MacroKind::Filter | MacroKind::Map | MacroKind::MapIf) => {
                let key = format!("{}", V::Map(m.clone()));
                match self.map_orders.get(&key) {
                    Some(order) => {
                        self.probe("macro_over_map");
                        order.iter().map(|k| V::Str(k.clone())).collect()
                    }
                    None => return Err(Silent("map range whose key order was not learnt")),
                }
            }
            // a range that fails makes the macro fail the same way (an absent range stays
            // absent); a range that is no list: a failure, class left open
            MO::Fail(cs) if !cs.is_empty() => return Ok(MO::Fail(cs)),
            _ => return Ok(MO::Fail(vec![])),
        };
        if elems.len() > 32 {
            self.probe("list_over_32");
        }
        let n = elems.len();
        let mut kept: Vec<V> = vec![];
        let mut hits = 0usize;
        for (i, x) in elems.into_iter().enumerate() {
            if self.lookup_var(var).is_some() || self.case.bindings.contains_key(var) {
                self.probe("loop_var_shadows_outer");
            }
            self.scopes.push((var.to_string(), x.clone()));
            let r = self.definite(&bodies[0]);
            let first = match r {
                Ok(MO::Val(v)) => v,
                Ok(f) => {
                    self.scopes.pop();
                    self.probe("macro_body_fails");
                    if i + 1 < n {
                        self.probe("macro_body_fails_before_last");
                    }
                    return Ok(f);
                }
                Err(s) => {
                    self.scopes.pop();
                    return Err(s);
                }
            };
            match kind {
                MacroKind::All => {
                    self.scopes.pop();
                    if !first.truthy() {
                        if i + 1 < n {
                            self.probe("all_stops_early");
                        }
                        return Ok(MO::Val(V::Bool(false)));
                    }
                }
                MacroKind::Exists => {
                    self.scopes.pop();
                    if first.truthy() {
                        if i + 1 < n {
                            self.probe("exists_stops_early");
                        }
                        return Ok(MO::Val(V::Bool(true)));
                    }
                }
                MacroKind::ExistsOne => {
                    self.scopes.pop();
                    if first.truthy() {
                        hits += 1;
                        if hits == 2 {
                            if i + 1 < n {
                                self.probe("exists_one_stops_early");
                            } else {
                                self.probe("exists_one_second_hit_on_last");
                            }
                            return Ok(MO::Val(V::Bool(false)));
                        }
                    }
                }
                MacroKind::Filter => {
                    self.scopes.pop();
                    if first.truthy() {
                        kept.push(x);
                    }
                }
                MacroKind::Map => {
                    self.scopes.pop();
                    kept.push(first);
                }
                MacroKind::MapIf => {
                    if first.truthy() {
                        let r = self.definite(&bodies[1]);
                        self.scopes.pop();
                        match r? {
                            MO::Val(v) => kept.push(v),
                            f => {
                                self.probe("macro_body_fails");
                                return Ok(f);
                            }
                        }
                    } else {
                        self.scopes.pop();
                        self.probe("mapif_skips_element");
                    }
                }
            }
        }
        Ok(match kind {
            MacroKind::All => MO::Val(V::Bool(true)),
            MacroKind::Exists => MO::Val(V::Bool(false)),
            MacroKind::ExistsOne => MO::Val(V::Bool(hits == 1)),
            _ => MO::Val(V::List(kept)),
        })
    }
}
