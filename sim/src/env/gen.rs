//! ENV engine: case generators.  Everything is a pure function of the run seed (random
//! tiers) or of the case index (enumerated tiers).

use super::ast::*;
use crate::prng::Rng;
use crate::val::{Class, V};
use std::collections::BTreeMap;

pub fn truthy_pool() -> Vec<V> {
    vec![
        V::Int(1),
        V::Int(-1),
        V::Int(7),
        V::UInt(2),
        V::f(0.5),
        V::f(-2.5),
        V::Bool(true),
        V::s("a"),
        V::s("no"),
        V::Bytes(b"a".to_vec()),
        V::list(vec![V::Int(0)]),
        V::list(vec![V::Null]),
        V::map(vec![("k", V::Int(0))]),
        V::Type("int".into()),
        V::Type("string".into()),
        V::Ts(0),
        V::Ts(1_700_000_000_000_000_000),
        V::Dur(0),
        V::Dur(5_000_000_000),
    ]
}

pub fn falsy_pool() -> Vec<V> {
    vec![
        V::Int(0),
        V::UInt(0),
        V::f(0.0),
        V::f(-0.0),
        V::Bool(false),
        V::s(""),
        V::Bytes(vec![]),
        V::list(vec![]),
        V::Map(BTreeMap::new()),
        V::Null,
    ]
}

pub fn any_value(r: &mut Rng) -> V {
    if r.chance(1, 2) {
        r.pick(&truthy_pool()).clone()
    } else {
        r.pick(&falsy_pool()).clone()
    }
}

pub fn inj_class(r: &mut Rng) -> Class {
    *r.pick(&Class::INJECTABLE)
}

fn fresh_keys(r: &mut Rng, n: usize) -> Vec<[u8; 16]> {
    (0..n).map(|_| r.bytes16()).collect()
}

pub struct Builder {
    pub case: EnvCase,
    next_site: u16,
    next_var: u16,
}

impl Builder {
    pub fn new(r: &mut Rng, nkeys: usize) -> Builder {
        Builder {
            case: EnvCase {
                programs: BTreeMap::new(),
                bindings: BTreeMap::new(),
                scripts: BTreeMap::new(),
                flat: r.chance(1, 2),
                hash_keys: fresh_keys(r, nkeys),
                via_json: false,
                threads: nkeys > 1,
                named: BTreeMap::new(),
                clock_ns: None,
                pre: vec![],
            },
            next_site: 0,
            next_var: 0,
        }
    }
    /// a new callback site with the given script
    pub fn site(&mut self, script: Vec<Answer>) -> u16 {
        let s = self.next_site;
        self.next_site += 1;
        self.case.scripts.insert(s, script);
        s
    }
    pub fn cb(&mut self, script: Vec<Answer>, args: Vec<E>) -> E {
        let s = self.site(script);
        E::Call(s, args)
    }
    /// a new bound variable
    pub fn bound(&mut self, v: V) -> E {
        let n = format!("v{}", self.next_var);
        self.next_var += 1;
        self.case.bindings.insert(n.clone(), v);
        E::Var(n)
    }
    pub fn unbound(&mut self) -> E {
        let n = format!("u{}", self.next_var);
        self.next_var += 1;
        E::Var(n)
    }
    pub fn finish(mut self, main: E) -> EnvCase {
        self.case.programs.insert("main".into(), main);
        self.case
    }
}

/// history injected before the exec under test (one case in four of the random tiers)
pub fn gen_pre(r: &mut Rng) -> Vec<PreOp> {
    if !r.chance(1, 4) {
        return vec![];
    }
    let n = 1 + r.usize(3);
    (0..n)
        .map(|_| {
            let v = r.below(250) as u8;
            let kind = match r.weighted(&[3, 2, 3, 2, 1, 2, 2, 2, 2]) {
                7 => PreKind::StaleDirect(v),
                8 => PreKind::StaleJson(v),
                0 => PreKind::BadCompile(v),
                1 => PreKind::BadCompileFree(v),
                2 => PreKind::FailExec(v),
                3 => PreKind::DepthExec(v),
                4 => PreKind::OkExec(v),
                5 => PreKind::SiblingCtx(v),
                _ => PreKind::SiblingBind(v),
            };
            PreOp { late: r.chance(1, 2), own: r.chance(1, 2), kind }
        })
        .collect()
}

// ------------------------------------------------------------------------------------------
// C05
// ------------------------------------------------------------------------------------------

/// Atom kinds of the enumerated tier: {truthy, falsy, failing} x {callback, literal, variable}
/// plus the unbound variable.
#[derive(Clone, Copy, Debug, PartialEq, Eq)]
pub enum AtomKind {
    TCb,
    FCb,
    ECb,
    Unbound,
    TLit,
    FLit,
    ELit,
    TVar,
    FVar,
    /// a stored program (its body is a callback) referenced by name: evaluated lazily, only
    /// when the operand it stands in is evaluated
    TProg,
    FProg,
    EProg,
}

pub const ATOMS9: [AtomKind; 9] = [
    AtomKind::TCb,
    AtomKind::FCb,
    AtomKind::ECb,
    AtomKind::Unbound,
    AtomKind::TLit,
    AtomKind::FLit,
    AtomKind::ELit,
    AtomKind::TVar,
    AtomKind::FVar,
];

pub const ATOMS4: [AtomKind; 4] = [AtomKind::TCb, AtomKind::FCb, AtomKind::ECb, AtomKind::Unbound];

/// stored-program operands against callbacks and the unbound name
pub const ATOMS_PROG: [AtomKind; 6] = [AtomKind::TProg, AtomKind::FProg, AtomKind::EProg, AtomKind::TCb, AtomKind::ECb, AtomKind::Unbound];

const ATOMS12: [AtomKind; 12] = [
    AtomKind::TCb,
    AtomKind::FCb,
    AtomKind::ECb,
    AtomKind::Unbound,
    AtomKind::TLit,
    AtomKind::FLit,
    AtomKind::ELit,
    AtomKind::TVar,
    AtomKind::FVar,
    AtomKind::TProg,
    AtomKind::FProg,
    AtomKind::EProg,
];

/// shape of a logical tree with atom holes
#[derive(Clone, Debug)]
pub enum Shape {
    Atom,
    Not(Box<Shape>),
    Or(Box<Shape>, Box<Shape>),
    And(Box<Shape>, Box<Shape>),
    Tern(Box<Shape>, Box<Shape>, Box<Shape>),
}

impl Shape {
    pub fn holes(&self) -> usize {
        match self {
            Shape::Atom => 1,
            Shape::Not(a) => a.holes(),
            Shape::Or(a, b) | Shape::And(a, b) => a.holes() + b.holes(),
            Shape::Tern(a, b, c) => a.holes() + b.holes() + c.holes(),
        }
    }
}

/// all shapes with exactly n operators
pub fn shapes(n: usize) -> Vec<Shape> {
    if n == 0 {
        return vec![Shape::Atom];
    }
    let mut out = vec![];
    for s in shapes(n - 1) {
        out.push(Shape::Not(Box::new(s)));
    }
    for l in 0..n {
        let r = n - 1 - l;
        for a in shapes(l) {
            for b in shapes(r) {
                out.push(Shape::Or(Box::new(a.clone()), Box::new(b.clone())));
                out.push(Shape::And(Box::new(a.clone()), Box::new(b.clone())));
            }
        }
    }
    for a in 0..n {
        for b in 0..(n - a) {
            let c = n - 1 - a - b;
            if a + b + c != n - 1 {
                continue;
            }
            for sa in shapes(a) {
                for sb in shapes(b) {
                    for sc in shapes(c) {
                        out.push(Shape::Tern(Box::new(sa.clone()), Box::new(sb.clone()), Box::new(sc.clone())));
                    }
                }
            }
        }
    }
    out
}

/// The enumerated space: (shape, assignment of atom kinds to holes) in a fixed order.
pub struct Enum05 {
    pub shapes: Vec<Shape>,
    pub atoms: Vec<AtomKind>,
    /// cumulative number of cases before shape i
    pub offsets: Vec<u64>,
    pub total: u64,
}

impl Enum05 {
    pub fn new(max_ops: usize, atoms: &[AtomKind]) -> Enum05 {
        let mut sh = vec![];
        for n in 0..=max_ops {
            sh.extend(shapes(n));
        }
        let mut offsets = vec![];
        let mut total = 0u64;
        for s in sh.iter() {
            offsets.push(total);
            total += (atoms.len() as u64).pow(s.holes() as u32);
        }
        Enum05 { shapes: sh, atoms: atoms.to_vec(), offsets, total }
    }

    pub fn case(&self, idx: u64, seed: u64) -> EnvCase {
        let si = match self.offsets.binary_search(&idx) {
            Ok(i) => {
                // several shapes may share an offset only if a shape had zero cases; not possible
                i
            }
            Err(i) => i - 1,
        };
        let mut rem = idx - self.offsets[si];
        let shape = &self.shapes[si];
        let mut kinds = vec![];
        for _ in 0..shape.holes() {
            kinds.push(self.atoms[(rem % self.atoms.len() as u64) as usize]);
            rem /= self.atoms.len() as u64;
        }
        let mut r = Rng::new(crate::prng::mix(seed, "c05-enum", idx));
        let mut b = Builder::new(&mut r, 1);
        let mut it = kinds.into_iter();
        let e = fill(shape, &mut it, &mut b, &mut r);
        b.finish(e)
    }
}

fn fill(s: &Shape, kinds: &mut dyn Iterator<Item = AtomKind>, b: &mut Builder, r: &mut Rng) -> E {
    match s {
        Shape::Atom => atom_of(kinds.next().unwrap(), b, r),
        Shape::Not(a) => E::not(fill(a, kinds, b, r)),
        Shape::Or(x, y) => {
            let l = fill(x, kinds, b, r);
            let rr = fill(y, kinds, b, r);
            E::or(l, rr)
        }
        Shape::And(x, y) => {
            let l = fill(x, kinds, b, r);
            let rr = fill(y, kinds, b, r);
            E::and(l, rr)
        }
        Shape::Tern(c, x, y) => {
            let cc = fill(c, kinds, b, r);
            let xx = fill(x, kinds, b, r);
            let yy = fill(y, kinds, b, r);
            E::tern(cc, xx, yy)
        }
    }
}

pub fn atom_of(k: AtomKind, b: &mut Builder, r: &mut Rng) -> E {
    match k {
        AtomKind::TCb => {
            let v = r.pick(&truthy_pool()).clone();
            b.cb(vec![Answer::V(v)], vec![])
        }
        AtomKind::FCb => {
            let v = r.pick(&falsy_pool()).clone();
            b.cb(vec![Answer::V(v)], vec![])
        }
        AtomKind::ECb => {
            let c = inj_class(r);
            b.cb(vec![Answer::Fail(c)], vec![])
        }
        AtomKind::Unbound => b.unbound(),
        AtomKind::TLit => E::Lit(r.pick(&truthy_pool()).clone()),
        AtomKind::FLit => E::Lit(r.pick(&falsy_pool()).clone()),
        AtomKind::ELit => E::FailLit(*r.pick(&FailLit::ALL)),
        AtomKind::TVar => {
            let v = r.pick(&truthy_pool()).clone();
            b.bound(v)
        }
        AtomKind::FVar => {
            let v = r.pick(&falsy_pool()).clone();
            b.bound(v)
        }
        AtomKind::TProg | AtomKind::FProg | AtomKind::EProg => {
            let ans = match k {
                AtomKind::TProg => Answer::V(r.pick(&truthy_pool()).clone()),
                AtomKind::FProg => Answer::V(r.pick(&falsy_pool()).clone()),
                _ => Answer::Fail(inj_class(r)),
            };
            let body = b.cb(vec![ans], vec![]);
            let name = format!("q{}", b.case.programs.len());
            b.case.programs.insert(name.clone(), body);
            E::Prog(name)
        }
    }
}

/// operands whose failure arises inside a construct: an f-string with a failing segment, a
/// member of a map that has no such key but is named like a built-in, a built-in method on a
/// failing receiver: a failing operand like any other
fn construct_atom(b: &mut Builder, r: &mut Rng) -> E {
    let failing = match r.below(3) {
        0 => {
            let c = inj_class(r);
            b.cb(vec![Answer::Fail(c)], vec![])
        }
        1 => b.unbound(),
        _ => E::FailLit(*r.pick(&FailLit::ALL)),
    };
    match r.below(5) {
        4 => {
            // two failing segments: still a failing operand, nothing more
            let second = match r.below(2) {
                0 => b.unbound(),
                _ => {
                    let c = inj_class(r);
                    b.cb(vec![Answer::Fail(c)], vec![])
                }
            };
            E::FStr(vec![FSeg::Expr(failing), FSeg::Lit("-".into()), FSeg::Expr(second)])
        }
        0 => E::FStr(vec![FSeg::Lit("s".into()), FSeg::Expr(failing)]),
        1 => {
            let m = b.bound(V::map(vec![("present", V::Int(1))]));
            E::Member(Box::new(m), r.pick(&["size", "filter", "contains", "min"]).to_string())
        }
        2 => E::MCall(Box::new(failing), r.pick(&["size", "toUpper"]).to_string(), vec![]),
        _ => {
            // an f-string that evaluates (truthy: never empty)
            let s = b.cb(vec![Answer::V(V::s("seg"))], vec![]);
            E::FStr(vec![FSeg::Lit("s".into()), FSeg::Expr(s)])
        }
    }
}

fn rand_atom(b: &mut Builder, r: &mut Rng) -> E {
    if r.chance(1, 12) {
        return construct_atom(b, r);
    }
    // the same call written twice is evaluated twice (or not at all where the operand is
    // skipped): every occurrence of an existing site adds an answer to its script
    if !b.case.scripts.is_empty() && r.chance(1, 8) {
        let sites: Vec<u16> = b.case.scripts.keys().cloned().collect();
        let s = *r.pick(&sites);
        let extra = match r.below(3) {
            0 => Answer::V(r.pick(&truthy_pool()).clone()),
            1 => Answer::V(r.pick(&falsy_pool()).clone()),
            _ => Answer::Fail(inj_class(r)),
        };
        if let Some(sc) = b.case.scripts.get_mut(&s) {
            if sc.len() < 6 {
                sc.push(extra);
            }
        }
        return E::Call(s, vec![]);
    }
    let k = *r.pick(&ATOMS12);
    atom_of(k, b, r)
}

/// random logical tree (C05 random tier): ||, &&, !, ?:, match, bool(), macro predicates
pub fn gen05_expr(b: &mut Builder, r: &mut Rng, depth: u32) -> E {
    if depth == 0 || r.chance(1, 5) {
        return rand_atom(b, r);
    }
    match r.weighted(&[5, 5, 3, 5, 3, 2, 2]) {
        0 => {
            let l = gen05_expr(b, r, depth - 1);
            let rr = gen05_expr(b, r, depth - 1);
            E::or(l, rr)
        }
        1 => {
            let l = gen05_expr(b, r, depth - 1);
            let rr = gen05_expr(b, r, depth - 1);
            E::and(l, rr)
        }
        2 => E::not(gen05_expr(b, r, depth - 1)),
        3 => {
            let c = gen05_expr(b, r, depth - 1);
            let x = gen05_expr(b, r, depth - 1);
            let y = gen05_expr(b, r, depth - 1);
            E::tern(c, x, y)
        }
        4 => gen_match(b, r, depth - 1),
        5 => {
            // bool(): never fed the boolean spellings (C14)
            let a = gen05_expr(b, r, depth - 1);
            E::BoolOf(Box::new(a))
        }
        _ => {
            // predicate position of all / exists / filter: truthiness of the elements
            let n = r.usize(5);
            let xs: Vec<V> = (0..n).map(|_| any_value(r)).collect();
            let k = *r.pick(&[MacroKind::All, MacroKind::Exists, MacroKind::Filter, MacroKind::ExistsOne, MacroKind::MapIf]);
            let range = if r.chance(1, 2) { E::Lit(V::List(xs)) } else { b.bound(V::List(xs)) };
            let body = if r.chance(1, 2) {
                E::var("x")
            } else {
                E::or(E::var("x"), gen05_expr(b, r, 0))
            };
            if k == MacroKind::MapIf {
                // the predicate of the three-argument map
                E::mac(k, range, "x", vec![body, E::List(vec![E::var("x")])])
            } else {
                E::mac(k, range, "x", vec![body])
            }
        }
    }
}

fn gen_match(b: &mut Builder, r: &mut Rng, depth: u32) -> E {
    // scrutinee: a non-failing value of a type the patterns can speak about
    let sv = match r.below(4) {
        0 => V::Int(r.range(-3, 3)),
        1 => V::s(*r.pick(&["a", "b", ""])),
        2 => V::Bool(r.chance(1, 2)),
        _ => any_value(r),
    };
    let scrut = match r.below(5) {
        0 => E::Lit(sv.clone()),
        1 => b.bound(sv.clone()),
        2 | 3 => b.cb(vec![Answer::V(sv.clone())], vec![]),
        _ => {
            // a bare reference to a stored program that would answer differently if it were
            // evaluated again: the scrutinee is evaluated once
            let other = match &sv {
                V::Int(i) => V::Int(i + 1),
                V::Str(_) => V::s("other"),
                V::Bool(x) => V::Bool(!x),
                _ => V::Int(77),
            };
            let body = b.cb(vec![Answer::V(sv.clone()), Answer::V(other.clone()), Answer::V(other)], vec![]);
            let name = format!("q{}", b.case.programs.len());
            b.case.programs.insert(name.clone(), body);
            E::Prog(name)
        }
    };
    let ncases = r.usize(4);
    let mut cases = vec![];
    for _ in 0..ncases {
        let pat = match r.below(4) {
            0 => Pat::Any,
            1 => Pat::Type(
                r.pick(&["int", "uint", "double", "float", "string", "bool", "bytes", "timestamp", "duration"]).to_string(),
            ),
            _ => {
                // same-type comparison operand
                let pv = match &sv {
                    V::Int(_) => Some(V::Int(r.range(-3, 3))),
                    V::Str(_) => Some(V::s(*r.pick(&["a", "b", ""]))),
                    V::Bool(_) => Some(V::Bool(r.chance(1, 2))),
                    _ => None,
                };
                match pv {
                    Some(pv) => {
                        let op = if matches!(pv, V::Bool(_)) { *r.pick(&[Cmp::Eq, Cmp::Ne]) } else { *r.pick(&Cmp::ALL) };
                        let pe = match r.below(3) {
                            0 => E::Lit(pv),
                            1 => b.bound(pv),
                            _ => b.cb(vec![Answer::V(pv)], vec![]),
                        };
                        Pat::Cmp(op, pe)
                    }
                    None => Pat::Any,
                }
            }
        };
        let arm = gen05_expr(b, r, depth.min(1));
        cases.push((pat, arm));
    }
    E::Match(Box::new(scrut), cases)
}

/// 33..48 failing operands of one `||` chain, then a truthy one: every failure is absorbed,
/// every operand evaluated once, the result is true (absorbing a failure must not use anything up)
fn gen05_long_chain(b: &mut Builder, r: &mut Rng) -> E {
    let n = 45 + r.usize(26);
    let shared = {
        let c = inj_class(r);
        b.site(vec![Answer::Fail(c)])
    };
    let mut e: Option<E> = None;
    for i in 0..n {
        // mostly operands whose failure arises in a nested evaluation (a stored program, the
        // argument of has)
        let op = match r.weighted(&[1, 1, 3, 3, 1]) {
            0 => E::Call(shared, vec![]),
            1 => b.unbound(),
            2 => {
                let body = b.cb(vec![Answer::Fail(inj_class(r))], vec![]);
                let name = format!("q{}", b.case.programs.len());
                b.case.programs.insert(name.clone(), body);
                E::Prog(name)
            }
            3 => E::Has(Box::new(b.unbound())),
            _ => {
                let c = inj_class(r);
                b.cb(vec![Answer::Fail(c)], vec![])
            }
        };
        let _ = i;
        e = Some(match e {
            None => op,
            Some(acc) => E::or(acc, op),
        });
    }
    let last = match r.below(3) {
        0 => E::Lit(V::Bool(true)),
        1 => b.cb(vec![Answer::V(V::Int(7))], vec![]),
        _ => b.bound(V::s("truthy")),
    };
    E::or(e.unwrap(), last)
}

pub fn gen05_random(seed: u64) -> EnvCase {
    let mut r = Rng::new(seed);
    let mut b = Builder::new(&mut r, 1);
    if r.chance(1, 200) {
        b.case.flat = true;
        let e = gen05_long_chain(&mut b, &mut r);
        return b.finish(e);
    }
    let depth = 1 + r.below(5) as u32;
    let e = gen05_expr(&mut b, &mut r, depth);
    b.case.pre = gen_pre(&mut r);
    b.finish(e)
}

// ------------------------------------------------------------------------------------------
// C07
// ------------------------------------------------------------------------------------------

fn elem_value(r: &mut Rng, kind: u64) -> V {
    match kind {
        0 => V::Int(r.range(-5, 5)),
        1 => V::s(*r.pick(&["a", "b", "c", ""])),
        2 => any_value(r),
        3 => V::Bool(r.chance(1, 2)),
        _ => V::list(vec![V::Int(r.range(0, 3))]),
    }
}

fn gen_list(r: &mut Rng) -> Vec<V> {
    let len = match r.below(10) {
        0 => 0,
        1 => 1,
        2 => 33 + r.usize(32), // beyond the call-depth limit of 32
        3 => 32,
        _ => r.usize(9),
    };
    let kind = r.below(5);
    let mut xs: Vec<V> = (0..len).map(|_| elem_value(r, kind)).collect();
    // duplicates on purpose: multiplicity must be preserved
    if len >= 2 && r.chance(1, 3) {
        let i = r.usize(len);
        let j = r.usize(len);
        xs[j] = xs[i].clone();
    }
    xs
}

/// answers for a per-element callback, with faults placed at the interesting ordinals
fn element_script(r: &mut Rng, kind: MacroKind, n: usize, truth_role: bool) -> Vec<Answer> {
    // truth_role: the callback's truthiness decides the macro (predicate position)
    let mut out: Vec<Answer> = vec![];
    let t = || -> Vec<V> { truthy_pool() };
    let f = || -> Vec<V> { falsy_pool() };
    if n == 0 {
        return vec![Answer::V(V::Int(1))];
    }
    let deciding = r.usize(n + 1); // n = never decides
    for i in 0..n {
        let a = if !truth_role {
            Answer::V(match r.below(3) {
                0 => V::Int(i as i64 * 10),
                1 => V::s(&format!("e{}", i)),
                _ => any_value(r),
            })
        } else {
            match kind {
                MacroKind::All => {
                    if i == deciding {
                        Answer::V(r.pick(&f()).clone())
                    } else if i < deciding {
                        Answer::V(r.pick(&t()).clone())
                    } else {
                        Answer::V(any_value(r))
                    }
                }
                MacroKind::Exists => {
                    if i == deciding {
                        Answer::V(r.pick(&t()).clone())
                    } else if i < deciding {
                        Answer::V(r.pick(&f()).clone())
                    } else {
                        Answer::V(any_value(r))
                    }
                }
                _ => Answer::V(any_value(r)),
            }
        };
        out.push(a);
    }
    // fault placement: first, deciding, after-deciding, last, random, none.  A body may also
    // fail the way absent data fails (missing field, unbound name): for a macro that is a
    // failing body like any other
    let cls = if r.chance(1, 4) { *r.pick(&[Class::Attribute, Class::Binding]) } else { inj_class(r) };
    match r.below(8) {
        0 => out[0] = Answer::Fail(cls),
        1 => {
            if deciding < n {
                out[deciding] = Answer::Fail(cls);
            }
        }
        2 => {
            if deciding + 1 < n {
                out[deciding + 1] = Answer::Fail(cls);
            }
        }
        3 => out[n - 1] = Answer::Fail(cls),
        4 => {
            let i = r.usize(n);
            out[i] = Answer::Fail(cls);
        }
        _ => {}
    }
    out
}

fn gen07_body(b: &mut Builder, r: &mut Rng, kind: MacroKind, var: &str, n: usize, depth: u32, truth_role: bool) -> E {
    match r.weighted(&[6, 2, 2, 2, 2, if depth > 0 { 3 } else { 0 }, 1, 3]) {
        0 => {
            // P(x): logs the visited element
            let sc = element_script(r, kind, n, truth_role);
            b.cb(sc, vec![E::var(var)])
        }
        1 => E::var(var),
        2 => {
            // reads an outer variable as well
            let sc = element_script(r, kind, n, truth_role);
            let p = b.cb(sc, vec![E::var(var)]);
            let outer = b.bound(any_value(r));
            if r.chance(1, 2) {
                E::and(p, outer)
            } else {
                E::or(p, outer)
            }
        }
        3 => {
            // stored program visible inside the body
            let name = format!("p{}", b.case.programs.len());
            let sc = element_script(r, kind, n, truth_role);
            // the program may read an outer binding that the macro's own text never names
            let args = if r.chance(1, 2) { vec![b.bound(any_value(r))] } else { vec![] };
            let pe = b.cb(sc, args);
            b.case.programs.insert(name.clone(), pe);
            E::Prog(name)
        }
        4 => {
            // element compared / combined with a literal of its own type (bound lists of ints)
            let sc = element_script(r, kind, n, truth_role);
            let p = b.cb(sc, vec![E::var(var), E::Lit(V::Int(r.range(0, 9)))]);
            p
        }
        5 => {
            // nested macro, re-using the same variable name or a fresh one; the inner range
            // may be the outer element (lists of lists) or an independent list
            let inner_var = if r.chance(1, 2) { var.to_string() } else { "y".to_string() };
            let inner_kind = *r.pick(&MacroKind::ALL);
            let m = r.usize(4);
            let inner_list: Vec<V> = (0..m).map(|i| V::Int(100 + i as i64)).collect();
            let range = if r.chance(1, 2) { E::Lit(V::List(inner_list)) } else { b.bound(V::List(inner_list)) };
            // the inner body sees the inner variable; when names differ it also sees the outer one
            let total = n.max(1) * m.max(1);
            let sc: Vec<Answer> = (0..total).map(|_| Answer::V(any_value(r))).collect();
            let mut args = vec![E::var(&inner_var)];
            if inner_var != var {
                args.push(E::var(var));
            }
            // two macros deep, a value bound by the caller is still visible
            if r.chance(1, 2) {
                args.push(b.bound(any_value(r)));
            }
            let ib = b.cb(sc, args);
            let mut bodies = vec![ib];
            if inner_kind == MacroKind::MapIf {
                let sc2: Vec<Answer> = (0..total).map(|i| Answer::V(V::Int(i as i64))).collect();
                bodies.push(b.cb(sc2, vec![E::var(&inner_var)]));
            }
            let inner = E::mac(inner_kind, range, &inner_var, bodies);
            // after the inner macro the outer variable must mean the outer element again
            let sc3 = element_script(r, kind, n, truth_role);
            let after = b.cb(sc3, vec![E::var(var)]);
            if r.chance(1, 2) {
                E::Tern(Box::new(E::Cmp(Cmp::Eq, Box::new(inner), Box::new(E::Lit(V::s("never"))))), Box::new(E::Lit(V::Null)), Box::new(after))
            } else {
                E::List(vec![inner, after])
            }
        }
        6 => E::Lit(any_value(r)),
        _ => {
            // a stored program that reads the loop name: evaluated "under the same bindings",
            // so inside the body it sees the element, outside the macro the outer binding
            let name = format!("pv{}", b.case.programs.len());
            let sc = element_script(r, kind, n + 1, truth_role);
            let pe = b.cb(sc, vec![E::var(var)]);
            b.case.programs.insert(name.clone(), pe);
            E::Prog(name)
        }
    }
}

pub fn gen07_random(seed: u64) -> EnvCase {
    let mut r = Rng::new(seed);
    let over_map = r.chance(1, 6);
    let mut b = Builder::new(&mut r, if over_map { 3 } else { 1 });
    let var = if r.chance(1, 4) { "y" } else { "x" };
    // sometimes the loop name is also bound outside: it must be shadowed inside and intact after
    let outer_bound = r.chance(2, 5);
    if outer_bound {
        b.case.bindings.insert(var.to_string(), V::s("outer-sentinel"));
    }
    let main = if over_map {
        let nk = r.usize(7);
        let mut m = BTreeMap::new();
        for i in 0..nk {
            // some keys differ only in letter case, some are prefixes of others
            let k = if r.chance(1, 2) {
                format!("{}{}", r.pick(&["k", "key", "z", "a", "m"]), i * 7 % 5 + i)
            } else {
                format!("{}{}", r.pick(&["k", "K", "key", "Key", "KEY", "a", "A", "ab", "aB", "Ab", "AB"]), r.pick(&["", "1"]))
            };
            m.insert(k, any_value(&mut r));
        }
        let n = m.len();
        let kind = *r.pick(&[MacroKind::Filter, MacroKind::Map, MacroKind::MapIf]);
        let range = if r.chance(1, 2) { E::Lit(V::Map(m)) } else { b.bound(V::Map(m)) };
        let mut bodies = vec![];
        let sc: Vec<Answer> = (0..n.max(1)).map(|_| Answer::V(any_value(&mut r))).collect();
        bodies.push(if r.chance(2, 3) { b.cb(sc, vec![E::var(var)]) } else { E::var(var) });
        if kind == MacroKind::MapIf {
            bodies.push(E::var(var));
        }
        E::mac(kind, range, var, bodies)
    } else if r.chance(1, 5) {
        // reduce
        let xs = match r.below(3) {
            0 => (0..r.usize(8)).map(|i| V::Int(i as i64)).collect::<Vec<_>>(),
            1 => (0..r.usize(8)).map(|i| V::s(&format!("s{}", i))).collect::<Vec<_>>(),
            _ => gen_list(&mut r),
        };
        let n = xs.len();
        let homog_int = xs.iter().all(|x| matches!(x, V::Int(_)));
        let homog_str = xs.iter().all(|x| matches!(x, V::Str(_)));
        let range = match r.below(3) {
            0 => E::Lit(V::List(xs)),
            1 => b.bound(V::List(xs)),
            _ => b.cb(vec![Answer::V(V::List(xs))], vec![]),
        };
        let (step, seedv) = match r.below(4) {
            0 if homog_int => (E::Add(Box::new(E::var("acc")), Box::new(E::var(var))), V::Int(r.range(0, 5))),
            1 if homog_str => (E::Add(Box::new(E::var("acc")), Box::new(E::var(var))), V::s("seed:")),
            2 => (
                E::Add(Box::new(E::var("acc")), Box::new(E::List(vec![E::var(var)]))),
                V::list(vec![V::s("seed")]),
            ),
            _ => {
                let mut sc: Vec<Answer> = (0..n.max(1)).map(|i| Answer::V(V::s(&format!("acc{}", i)))).collect();
                if n > 0 && r.chance(1, 3) {
                    let i = r.usize(n);
                    sc[i] = Answer::Fail(inj_class(&mut r));
                }
                (b.cb(sc, vec![E::var("acc"), E::var(var)]), V::s("seed"))
            }
        };
        let seed_e = match r.below(5) {
            4 => {
                // the seed is the bare name of a stored program
                let body = if r.chance(1, 2) { E::Lit(seedv.clone()) } else { b.cb(vec![Answer::V(seedv.clone())], vec![]) };
                let name = format!("sd{}", b.case.programs.len());
                b.case.programs.insert(name.clone(), body);
                E::Prog(name)
            }
            0 => b.cb(vec![Answer::V(seedv)], vec![]),
            1 => b.bound(seedv),
            2 if r.chance(1, 3) => b.cb(vec![Answer::Fail(inj_class(&mut r))], vec![]),
            _ => E::Lit(seedv),
        };
        E::Reduce(Box::new(range), "acc".into(), var.into(), Box::new(step), Box::new(seed_e))
    } else {
        let xs = gen_list(&mut r);
        let n = xs.len();
        let kind = *r.pick(&MacroKind::ALL);
        let range = match r.below(4) {
            0 => E::Lit(V::List(xs)),
            1 => b.bound(V::List(xs)),
            2 => b.cb(vec![Answer::V(V::List(xs))], vec![]),
            _ => {
                // list literal with computed elements: evaluated once, before any body
                if n <= 6 {
                    // (at most one computed element: no statement orders the evaluation of
                    // the elements of a list literal among themselves)
                    let mut es = vec![];
                    let computed = r.usize(n.max(1));
                    for (i, x) in xs.iter().enumerate() {
                        es.push(if i == computed { b.cb(vec![Answer::V(x.clone())], vec![]) } else { E::Lit(x.clone()) });
                    }
                    E::List(es)
                } else {
                    E::Lit(V::List(xs))
                }
            }
        };
        let truth_role = !matches!(kind, MacroKind::Map);
        let mut bodies = vec![gen07_body(&mut b, &mut r, kind, var, n, 1, truth_role)];
        if kind == MacroKind::MapIf {
            bodies.push(gen07_body(&mut b, &mut r, MacroKind::Map, var, n, 0, false));
        }
        E::mac(kind, range, var, bodies)
    };
    // a stored program under the loop variable's own name: inside the body the name means the
    // element (a bound variable is found before a stored program)
    if !over_map && r.chance(1, 8) && !b.case.programs.contains_key(var) {
        b.case.programs.insert(var.to_string(), E::Lit(V::s("program-named-like-the-loop-variable")));
    }
    // a stored program reading the loop name is also evaluated outside the macro, before or
    // after it, in the same execution: there the name means the outer binding
    let pv: Vec<String> = b.case.programs.keys().filter(|k| k.starts_with("pv")).cloned().collect();
    let main = if outer_bound && !pv.is_empty() && r.chance(3, 4) {
        // (a program name inside a list literal is resolved when the list is built, after the
        // other elements: no statement orders that, so the order is forced by a condition)
        let p = E::Prog(r.pick(&pv).clone());
        let never = || Box::new(E::Lit(V::s("never")));
        match r.below(3) {
            0 => E::Tern(Box::new(E::Cmp(Cmp::Eq, Box::new(p), never())), Box::new(E::Lit(V::Null)), Box::new(main)),
            1 => E::Tern(Box::new(E::Cmp(Cmp::Eq, Box::new(main), never())), Box::new(E::Lit(V::Null)), Box::new(p)),
            _ => E::Or(Box::new(E::Cmp(Cmp::Eq, Box::new(p), never())), Box::new(main)),
        }
    } else {
        main
    };
    // sometimes use the loop name again after the macro: it must mean the outer binding
    // (also after a macro whose body failed and whose failure the surrounding expression
    // absorbed: whatever the macro did to give the name a meaning must be undone on that
    // path too; without an outer binding the name is unbound again afterwards)
    let main = match r.below(8) {
        0 | 1 if outer_bound => E::List(vec![main, E::var(var)]),
        2 if outer_bound => E::Tern(Box::new(E::or(main, E::Lit(V::Bool(true)))), Box::new(E::var(var)), Box::new(E::Lit(V::Int(-1)))),
        3 if outer_bound => E::List(vec![E::Has(Box::new(main)), E::var(var)]),
        2 => E::Tern(Box::new(E::or(main, E::Lit(V::Bool(true)))), Box::new(E::Has(Box::new(E::var(var)))), Box::new(E::Lit(V::Int(-1)))),
        3 => E::List(vec![E::Has(Box::new(main)), E::Has(Box::new(E::var(var)))]),
        _ => main,
    };
    b.case.pre = gen_pre(&mut r);
    let mut case = b.finish(main);
    // the outer bindings (among them one under the loop variable's name) may come from JSON
    if r.chance(1, 4) && case.bindings.values().all(super::run::json_faithful) {
        case.via_json = true;
    }
    case
}

// ------------------------------------------------------------------------------------------
// C08
// ------------------------------------------------------------------------------------------

/// how the bound tree answers a path of depth d
#[derive(Clone, Copy, Debug, PartialEq, Eq)]
pub enum PathCfg {
    Present,
    NullLeaf,
    /// the key at this level (1-based; d = leaf) is missing from its map
    MissingAt(usize),
    RootUnbound,
    /// the value at this level (1-based, < d) is not a map
    NonMapAt(usize),
    /// the root is a callback that fails with an injected class
    RootFails,
    /// the root is a callback returning the tree
    RootCallback,
    /// the root is the name of another stored program that evaluates to the tree
    RootProgram,
    /// the root is the name of another stored program that fails with an injected class
    RootProgramFails,
    /// the root is the name of a stored program whose value is absent (an unbound name or
    /// a missing key): absent data reached through a program reference is still absent
    RootProgramAbsent,
    /// the whole path is a constant: the tree is written as a literal (present leaf)
    LiteralPresent,
    /// constant path whose last key is missing from the literal
    LiteralMissingLeaf,
    /// constant path that fails with a non-absence failure (division by zero / bad list
    /// index inside the literal): the compiler may evaluate it, has() must still propagate
    LiteralFails,
}

pub fn path_cfgs(d: usize) -> Vec<PathCfg> {
    let mut v = vec![
        PathCfg::Present,
        PathCfg::NullLeaf,
        PathCfg::RootUnbound,
        PathCfg::RootFails,
        PathCfg::RootCallback,
        PathCfg::RootProgram,
        PathCfg::RootProgramFails,
        PathCfg::RootProgramAbsent,
        PathCfg::LiteralPresent,
        PathCfg::LiteralMissingLeaf,
        PathCfg::LiteralFails,
    ];
    for l in 1..=d {
        v.push(PathCfg::MissingAt(l));
    }
    for l in 0..d {
        // level 0 = the root itself is bound to a non-map
        v.push(PathCfg::NonMapAt(l));
    }
    v
}

const FIELDS: [&str; 5] = ["a", "b", "c", "d", "e"];

/// Build `root.a.b...` (syntax: bit i of `mask` = index syntax at step i) and the bound tree
/// realising `cfg`.  Returns the path expression.
pub fn build_path(b: &mut Builder, r: &mut Rng, d: usize, cfg: PathCfg, mask: u32) -> E {
    let leaf = match cfg {
        PathCfg::NullLeaf => V::Null,
        _ => match r.below(4) {
            0 => V::Int(r.range(0, 9)),
            1 => V::s("leaf"),
            2 => V::Bool(false),
            _ => any_value(r).clone(),
        },
    };
    let leaf = if cfg != PathCfg::NullLeaf && leaf == V::Null { V::Int(0) } else { leaf };
    // literal trees hold values every literal spelling round-trips
    let leaf = if matches!(cfg, PathCfg::LiteralPresent | PathCfg::LiteralMissingLeaf | PathCfg::LiteralFails) {
        match r.below(3) {
            0 => V::Int(r.range(0, 9)),
            1 => V::s("leaf"),
            _ => V::list(vec![V::Int(1), V::Int(2)]),
        }
    } else {
        leaf
    };
    // a key that IS there may bear a callable's name as well: the field wins
    let callable_present = d >= 1 && matches!(cfg, PathCfg::Present | PathCfg::NullLeaf | PathCfg::RootCallback | PathCfg::RootProgram) && r.chance(1, 5);
    let present_name = *r.pick(&["size", "min", "max", "filter", "map", "contains"]);
    // build nested maps bottom-up
    let mut tree = leaf;
    for lvl in (1..=d).rev() {
        let mut m = BTreeMap::new();
        let missing = matches!(cfg, PathCfg::MissingAt(l) if l == lvl) || (cfg == PathCfg::LiteralMissingLeaf && lvl == d);
        if !missing {
            let key = if callable_present && lvl == d { present_name } else { FIELDS[lvl - 1] };
            m.insert(key.to_string(), tree);
        }
        // siblings so that maps are not empty and lookups have something to confuse
        if r.chance(1, 2) {
            m.insert(format!("s{}", lvl), V::Int(lvl as i64));
        }
        tree = V::Map(m);
        if let PathCfg::NonMapAt(l) = cfg {
            if l == lvl - 1 + 0 && l >= 1 {
                // handled below: replace the value at level l (the map holding field l+1)
            }
        }
    }
    if let PathCfg::NonMapAt(l) = cfg {
        // replace the value reached after l steps by a non-map
        let non = match r.below(4) {
            0 => V::Int(5),
            1 => V::s("str"),
            2 => V::list(vec![V::Int(1)]),
            _ => V::Bool(true),
        };
        tree = replace_at(tree, l, non);
    }
    let root = match cfg {
        PathCfg::LiteralPresent | PathCfg::LiteralMissingLeaf => E::Lit(tree),
        PathCfg::LiteralFails => {
            // the literal tree, then a constant operation on it that fails with a class
            // other than absence
            let t = E::Lit(tree);
            match r.below(3) {
                0 => E::Index(Box::new(E::List(vec![t])), Box::new(E::Lit(V::Int(3)))),
                1 => E::Add(Box::new(t), Box::new(E::FailLit(FailLit::DivZero))),
                _ => E::FailLit(*r.pick(&FailLit::ALL)),
            }
        }
        PathCfg::RootUnbound => b.unbound(),
        PathCfg::RootFails => {
            let c = inj_class(r);
            b.cb(vec![Answer::Fail(c)], vec![])
        }
        PathCfg::RootCallback => b.cb(vec![Answer::V(tree)], vec![]),
        PathCfg::RootProgram | PathCfg::RootProgramFails | PathCfg::RootProgramAbsent => {
            let body = if cfg == PathCfg::RootProgramFails {
                let c = inj_class(r);
                b.cb(vec![Answer::Fail(c)], vec![])
            } else if cfg == PathCfg::RootProgramAbsent {
                if r.chance(1, 2) {
                    b.unbound()
                } else {
                    let holder = b.bound(V::map(vec![("present", V::Int(1))]));
                    E::Member(Box::new(holder), "gone".to_string())
                }
            } else if r.chance(1, 2) {
                b.cb(vec![Answer::V(tree)], vec![])
            } else {
                b.bound(tree)
            };
            // reached through a chain of 1..3 stored programs (the path names only the first)
            let mut name = format!("r{}", b.case.programs.len());
            b.case.programs.insert(name.clone(), body);
            for _ in 0..r.usize(3) {
                let outer = format!("r{}", b.case.programs.len());
                b.case.programs.insert(outer.clone(), E::Prog(name));
                name = outer;
            }
            E::Prog(name)
        }
        _ => b.bound(tree),
    };
    let mut e = root;
    // a missing last key may bear the name of a built-in function or macro: it is still just
    // a key that is not there
    let callable_leaf = d >= 1 && matches!(cfg, PathCfg::MissingAt(l) if l == d) && r.chance(1, 3);
    for i in 0..d {
        let name = if callable_leaf && i + 1 == d {
            *r.pick(&["size", "filter", "min", "map", "contains", "round"])
        } else if callable_present && i + 1 == d {
            present_name
        } else {
            FIELDS[i]
        };
        e = if mask & (1 << i) != 0 {
            E::Index(Box::new(e), Box::new(E::Lit(V::s(name))))
        } else {
            E::Member(Box::new(e), name.to_string())
        };
    }
    e
}

fn replace_at(tree: V, steps: usize, with: V) -> V {
    if steps == 0 {
        return with;
    }
    match tree {
        V::Map(mut m) => {
            // follow the path field at this level
            let key = m.keys().find(|k| FIELDS.contains(&k.as_str()) || ["size", "min", "max", "filter", "map", "contains"].contains(&k.as_str())).cloned();
            if let Some(k) = key {
                let sub = m.remove(&k).unwrap();
                m.insert(k, replace_at(sub, steps - 1, with));
            }
            V::Map(m)
        }
        other => other,
    }
}

/// positions a has()/coalesce() expression is placed in ("identically at top level, inside
/// macro bodies, ...")
pub const WRAPS: usize = 7;

pub fn wrap(b: &mut Builder, r: &mut Rng, inner: E, w: usize) -> E {
    match w {
        0 => inner,
        1 => E::mac(MacroKind::Map, E::Lit(V::list(vec![V::Int(1), V::Int(2)])), "x", vec![inner]),
        2 => E::mac(MacroKind::Filter, b.bound(V::list(vec![V::Int(1), V::Int(2), V::Int(3)])), "x", vec![inner]),
        3 => E::not(inner),
        4 => E::tern(inner, E::Lit(V::s("then")), E::Lit(V::s("else"))),
        5 => E::Coalesce(vec![E::Lit(V::Null), inner, E::Lit(V::s("later"))]),
        6 => E::mac(MacroKind::All, E::Lit(V::list(vec![V::Int(1)])), "x", vec![E::or(inner, E::Lit(V::Bool(true)))]),
        _ => {
            let _ = r;
            inner
        }
    }
}

/// enumerated tier of has(): depth x configuration x syntax mask x wrapper
pub struct Enum08Has {
    pub items: Vec<(usize, PathCfg, u32, usize)>,
}

impl Enum08Has {
    pub fn new() -> Enum08Has {
        let mut items = vec![];
        for d in 0..=4usize {
            for cfg in path_cfgs(d) {
                for mask in 0..(1u32 << d) {
                    for w in 0..WRAPS {
                        items.push((d, cfg, mask, w));
                    }
                }
            }
        }
        Enum08Has { items }
    }
    pub fn case(&self, idx: u64, seed: u64) -> EnvCase {
        let (d, cfg, mask, w) = self.items[idx as usize];
        let mut r = Rng::new(crate::prng::mix(seed, "c08-has", idx));
        let mut b = Builder::new(&mut r, 1);
        let p = build_path(&mut b, &mut r, d, cfg, mask);
        let h = E::Has(Box::new(p));
        let e = wrap(&mut b, &mut r, h, w);
        b.finish(e)
    }
}

/// the path as the condition / left operand of a logical operator inside has() and coalesce():
/// every configuration of the path (constant ones included: the compiler may decide the
/// operator) x {has(p ? a : b), coalesce(p ? a : b, fb), has(p && a), has(!p), has(p || a),
/// coalesce(p && a, fb)}; a condition that fails as absent makes the operator fail as absent,
/// any other failure is propagated, and neither branch is evaluated
pub struct Enum08Cond {
    pub items: Vec<(usize, PathCfg, usize)>,
}

impl Enum08Cond {
    pub fn new() -> Enum08Cond {
        let mut items = vec![];
        for d in 0..=2usize {
            for cfg in path_cfgs(d) {
                for form in 0..6usize {
                    items.push((d, cfg, form));
                }
            }
        }
        Enum08Cond { items }
    }
    pub fn case(&self, idx: u64, seed: u64) -> EnvCase {
        let (d, cfg, form) = self.items[idx as usize];
        let mut r = Rng::new(crate::prng::mix(seed, "c08-cond", idx));
        let mut b = Builder::new(&mut r, 1);
        let mask = r.below(1 << d) as u32;
        let p = build_path(&mut b, &mut r, d, cfg, mask);
        let a = b.cb(vec![Answer::V(V::Int(1))], vec![]);
        let c = if r.chance(1, 2) { b.cb(vec![Answer::V(V::Int(2))], vec![]) } else { E::Lit(V::Int(2)) };
        let fb = E::Lit(V::s("fallback"));
        let e = match form {
            0 => E::Has(Box::new(E::Tern(Box::new(p), Box::new(a), Box::new(c)))),
            1 => E::Coalesce(vec![E::Tern(Box::new(p), Box::new(a), Box::new(c)), fb]),
            2 => E::Has(Box::new(E::and(p, a))),
            3 => E::Has(Box::new(E::Not(Box::new(p)))),
            4 => E::Has(Box::new(E::or(p, a))),
            _ => E::Coalesce(vec![E::and(p, a), fb]),
        };
        let w = r.usize(WRAPS);
        let e = wrap(&mut b, &mut r, e, w);
        b.finish(e)
    }
}

/// kinds of coalesce arguments
#[derive(Clone, Copy, Debug, PartialEq, Eq)]
pub enum ArgKind {
    Present,
    Null,
    Absent,
    Failing,
}
pub const ARG_KINDS: [ArgKind; 4] = [ArgKind::Present, ArgKind::Null, ArgKind::Absent, ArgKind::Failing];

pub fn coalesce_arg(b: &mut Builder, r: &mut Rng, k: ArgKind) -> E {
    match k {
        ArgKind::Present => {
            let mut v = any_value(r);
            if v == V::Null {
                v = V::Int(0);
            }
            match r.below(4) {
                0 => E::Lit(v),
                1 => b.bound(v),
                2 => b.cb(vec![Answer::V(v)], vec![]),
                _ => {
                    let d = 1 + r.usize(3);
                    let mask = r.below(1 << d) as u32;
                    build_path(b, r, d, PathCfg::Present, mask)
                }
            }
        }
        ArgKind::Null => match r.below(4) {
            0 => E::Lit(V::Null),
            1 => b.bound(V::Null),
            2 => b.cb(vec![Answer::V(V::Null)], vec![]),
            _ => {
                let d = 1 + r.usize(3);
                let mask = r.below(1 << d) as u32;
                build_path(b, r, d, PathCfg::NullLeaf, mask)
            }
        },
        ArgKind::Absent => match r.below(3) {
            0 => b.unbound(),
            1 => {
                let d = 1 + r.usize(3);
                let l = 1 + r.usize(d);
                let mask = r.below(1 << d) as u32;
                build_path(b, r, d, PathCfg::MissingAt(l), mask)
            }
            _ => {
                let d = 1 + r.usize(3);
                let mask = r.below(1 << d) as u32;
                build_path(b, r, d, PathCfg::RootUnbound, mask)
            }
        },
        ArgKind::Failing => match r.below(4) {
            0 => E::FailLit(*r.pick(&FailLit::ALL)),
            1 => {
                let c = inj_class(r);
                b.cb(vec![Answer::Fail(c)], vec![])
            }
            2 => {
                // bad list index inside a bound tree
                let l = b.bound(V::list(vec![V::Int(1), V::Int(2)]));
                E::Index(Box::new(l), Box::new(E::Lit(V::Int(5))))
            }
            _ => {
                let c = inj_class(r);
                let cb = b.cb(vec![Answer::Fail(c)], vec![]);
                E::Index(Box::new(cb), Box::new(E::Lit(V::s("a"))))
            }
        },
    }
}

pub struct Enum08Coalesce {
    pub total: u64,
}

impl Enum08Coalesce {
    pub fn new() -> Enum08Coalesce {
        // sum over n=0..5 of 4^n argument-kind vectors, times the wrappers
        let mut t = 0u64;
        for n in 0..=5u32 {
            t += 4u64.pow(n);
        }
        Enum08Coalesce { total: t * WRAPS as u64 }
    }
    pub fn case(&self, idx: u64, seed: u64) -> EnvCase {
        let w = (idx % WRAPS as u64) as usize;
        let mut k = idx / WRAPS as u64;
        let mut n = 0u32;
        loop {
            let c = 4u64.pow(n);
            if k < c {
                break;
            }
            k -= c;
            n += 1;
        }
        let mut r = Rng::new(crate::prng::mix(seed, "c08-coalesce", idx));
        let mut b = Builder::new(&mut r, 1);
        let mut args = vec![];
        for _ in 0..n {
            let kind = ARG_KINDS[(k % 4) as usize];
            k /= 4;
            args.push(coalesce_arg(&mut b, &mut r, kind));
        }
        let e = wrap(&mut b, &mut r, E::Coalesce(args), w);
        b.finish(e)
    }
}

pub fn gen08_random(seed: u64) -> EnvCase {
    let mut r = Rng::new(seed);
    let mut b = Builder::new(&mut r, 1);
    let e = gen08_expr(&mut b, &mut r, 2);
    let w = r.usize(WRAPS + 3);
    let e = wrap(&mut b, &mut r, e, w);
    b.case.pre = gen_pre(&mut r);
    let mut case = b.finish(e);
    // "bound maps of any depth", also when they came in through JSON
    if r.chance(1, 4) && case.bindings.values().all(super::run::json_faithful) {
        case.via_json = true;
    }
    case
}

fn gen08_expr(b: &mut Builder, r: &mut Rng, depth: u32) -> E {
    if r.chance(1, 2) {
        // has
        let d = r.usize(5);
        let cfgs = path_cfgs(d);
        let cfg = *r.pick(&cfgs);
        let mask = r.below(1 << d) as u32;
        let p = build_path(b, r, d, cfg, mask);
        // the same root mentioned twice in one evaluation (the second path ends in a key
        // that is missing, or is the same path again)
        if d >= 1 && r.chance(1, 6) {
            let mut p2 = p.clone();
            if r.chance(1, 2) {
                match &mut p2 {
                    E::Member(_, f) => *f = "zz".to_string(),
                    E::Index(_, i) => **i = E::Lit(V::s("zz")),
                    _ => {}
                }
            }
            return match r.below(3) {
                0 => E::or(E::Has(Box::new(p)), E::Has(Box::new(p2))),
                1 => E::Coalesce(vec![p2, p, E::Lit(V::s("fallback"))]),
                _ => E::List(vec![E::Has(Box::new(p2)), E::Has(Box::new(p))]),
            };
        }
        // the path inside an f-string, as the receiver of a built-in method, or as the range of
        // a macro: all of them fail the way the path fails, so absent stays absent
        if r.chance(1, 4) {
            let absent_like = !matches!(cfg, PathCfg::Present | PathCfg::NullLeaf | PathCfg::RootCallback | PathCfg::RootProgram | PathCfg::LiteralPresent);
            let wrapped = match r.below(7) {
                // a type error of a built-in is a failure other than absence
                6 => E::NCall(r.pick(&["abs", "floor", "ceil", "sqrt"]).to_string(), vec![match r.below(3) {
                    0 => E::Lit(V::s("not a number")),
                    1 => b.bound(V::s("abc")),
                    _ => b.bound(V::list(vec![V::Int(1)])),
                }]),
                5 if absent_like => E::NCall(r.pick(&["int", "string", "type", "double", "bool"]).to_string(), vec![p.clone()]),
                4 if absent_like => E::Reduce(
                    Box::new(E::Lit(V::list(vec![V::Int(1), V::Int(2)]))),
                    "acc".into(),
                    "x".into(),
                    Box::new(E::var("acc")),
                    Box::new(p.clone()),
                ),
                0 => E::FStr(vec![FSeg::Lit("v=".into()), FSeg::Expr(p.clone())]),
                1 if absent_like => E::MCall(Box::new(p.clone()), r.pick(&["size", "toUpper", "trim"]).to_string(), vec![]),
                2 if absent_like => E::MCall(Box::new(p.clone()), "contains".to_string(), vec![E::Lit(V::s("a"))]),
                3 if absent_like => {
                    let k = *r.pick(&[MacroKind::Map, MacroKind::Filter, MacroKind::All, MacroKind::Exists, MacroKind::ExistsOne]);
                    E::mac(k, p.clone(), "x", vec![E::var("x")])
                }
                3 => E::Reduce(
                    Box::new(E::Lit(V::list(vec![V::Int(1), V::Int(2)]))),
                    "acc".into(),
                    "x".into(),
                    Box::new(E::var("acc")),
                    Box::new(p.clone()),
                ),
                _ => E::FStr(vec![FSeg::Expr(p.clone()), FSeg::Lit("!".into())]),
            };
            return match r.below(3) {
                0 => E::Has(Box::new(wrapped)),
                1 => E::Coalesce(vec![wrapped, E::Lit(V::s("fallback"))]),
                _ => E::or(E::Has(Box::new(wrapped)), E::Lit(V::Bool(false))),
            };
        }
        let inner = if depth > 0 && r.chance(1, 4) {
            // has over a coalesce / arithmetic over the path
            match r.below(3) {
                0 => E::Coalesce(vec![p, gen08_expr(b, r, depth - 1)]),
                1 => E::Add(Box::new(p), Box::new(E::Lit(V::Int(1)))),
                _ => E::Index(Box::new(b.bound(V::list(vec![V::Int(1), V::Int(2)]))), Box::new(p)),
            }
        } else {
            p
        };
        E::Has(Box::new(inner))
    } else {
        let n = r.usize(6);
        let mut args = vec![];
        for _ in 0..n {
            if depth > 0 && r.chance(1, 6) {
                args.push(gen08_expr(b, r, depth - 1));
            } else {
                let k = ARG_KINDS[r.weighted(&[3, 3, 3, 2])];
                args.push(coalesce_arg(b, r, k));
            }
        }
        // textually identical arguments: each occurrence is evaluated on its own (a callback
        // that answered null or failed as absent the first time may answer with a value later)
        if args.len() >= 2 && r.chance(1, 4) {
            let i = r.usize(args.len() - 1);
            let j = i + 1 + r.usize(args.len() - 1 - i);
            let first = match r.below(3) {
                0 => Answer::V(V::Null),
                1 => Answer::V(V::map(vec![("other", V::Int(1))])),
                _ => Answer::V(V::Null),
            };
            let later = Answer::V(V::s("later-answer"));
            let call = b.cb(vec![first.clone(), first, later], vec![]);
            // `poll()` or `fetch().v` (absent the first times when the map has no `v`)
            let arg = if r.chance(1, 2) { call } else { E::Member(Box::new(call), "v".to_string()) };
            args[i] = arg.clone();
            args[j] = arg.clone();
            if r.chance(1, 2) {
                args.push(arg);
            }
        }
        E::Coalesce(args)
    }
}
