pub mod ast;
pub mod gen;
pub mod model;
pub mod run;
pub mod shrink;

use crate::engine::*;
use crate::prng::{fnv, mix};
use ast::EnvCase;
use serde_json::Value as J;

#[derive(Clone, Copy, PartialEq, Eq, Debug)]
pub enum EnvProp {
    C05,
    C07,
    C08,
}

pub struct EnvEngine {
    pub prop: EnvProp,
    e05_quick: gen::Enum05,
    e05_thorough: gen::Enum05,
    e05_prog: gen::Enum05,
    e08_has: gen::Enum08Has,
    e08_co: gen::Enum08Coalesce,
    e08_cond: gen::Enum08Cond,
}

fn env_u64(name: &str) -> Option<u64> {
    std::env::var(name).ok().and_then(|s| s.parse().ok())
}

impl EnvEngine {
    pub fn new(prop: EnvProp) -> EnvEngine {
        EnvEngine {
            prop,
            e05_quick: gen::Enum05::new(2, &gen::ATOMS9),
            e05_thorough: gen::Enum05::new(3, &gen::ATOMS4),
            e05_prog: gen::Enum05::new(2, &gen::ATOMS_PROG),
            e08_has: gen::Enum08Has::new(),
            e08_co: gen::Enum08Coalesce::new(),
            e08_cond: gen::Enum08Cond::new(),
        }
    }

    pub fn gen(&self, k: u64, seed: u64, thorough: bool) -> EnvCase {
        let mut c = self.gen_inner(k, seed, thorough);
        // a deterministic sample of all cases runs on fresh threads with recorded hash keys;
        // the rest runs on the worker's own thread (thread creation dominates the cost of a
        // case in this sandbox)
        // cases with injected history always get a thread of their own: what a failed
        // compile or exec leaves behind on a thread must not reach other cases
        if k % 64 == 0 || !c.pre.is_empty() {
            c.threads = true;
        }
        c
    }

    fn gen_inner(&self, k: u64, seed: u64, thorough: bool) -> EnvCase {
        let (en, _) = self.plan(thorough);
        match self.prop {
            EnvProp::C05 => {
                let q = self.e05_quick.total;
                let p = self.e05_prog.total;
                if k < q {
                    self.e05_quick.case(k, seed)
                } else if k < q + p {
                    self.e05_prog.case(k - q, seed)
                } else if k < en {
                    self.e05_thorough.case(k - q - p, seed)
                } else {
                    gen::gen05_random(mix(seed, "C05", k))
                }
            }
            EnvProp::C07 => gen::gen07_random(mix(seed, "C07", k)),
            EnvProp::C08 => {
                let nh = self.e08_has.items.len() as u64;
                if k < nh {
                    self.e08_has.case(k, seed)
                } else if k < nh + self.e08_co.total {
                    self.e08_co.case(k - nh, seed)
                } else if k < en {
                    self.e08_cond.case(k - nh - self.e08_co.total, seed)
                } else {
                    gen::gen08_random(mix(seed, "C08", k))
                }
            }
        }
    }

    /// Decide a case.  A violation found on the worker's long-lived thread is re-confirmed on
    /// fresh threads with recorded hash keys, so that the replay file reproduces it exactly.
    pub fn check_case(&self, case: &EnvCase) -> RunResult {
        let mut r = self.check_case_once(case);
        if r.violation.is_some() && !case.threads {
            let sig = r.violation.as_ref().unwrap().signature.clone();
            let mut rng = crate::prng::Rng::new(fnv(case.skeleton().as_bytes()));
            for attempt in 0..8 {
                let mut c2 = case.clone();
                c2.threads = true;
                if attempt > 0 || c2.hash_keys.is_empty() {
                    c2.hash_keys = vec![rng.bytes16()];
                }
                let r2 = self.check_case_once(&c2);
                if r2.violation.as_ref().map(|v| v.signature == sig).unwrap_or(false) {
                    return RunResult {
                        stats: r.stats,
                        violation: r2.violation,
                        case_override: Some(serde_json::to_value(&c2).unwrap()),
                    };
                }
            }
            // could not be made replayable: not reported, but counted
            r.violation = None;
            r.stats.fired.insert("inline_violation_not_reproduced_on_fresh_threads".into(), 1);
        }
        r
    }

    fn check_case_once(&self, case: &EnvCase) -> RunResult {
        let (viol, st) = match run::check_case(case) {
            Ok(st) => (None, st),
            Err((v, st)) => (Some(v), st),
        };
        let mut fired = std::collections::BTreeMap::new();
        for (k, v) in st.probes.iter() {
            fired.insert(k.to_string(), *v);
        }
        if case.threads {
            fired.insert("ran_on_fresh_threads".into(), case.hash_keys.len().max(1) as u64);
            if case.hash_keys.len() > 1 {
                fired.insert("hash_keys_variant".into(), case.hash_keys.len() as u64);
            }
        }
        if case.via_json {
            fired.insert("bound_via_json".into(), 1);
        }
        for p in case.pre.iter() {
            let k = match p.kind {
                ast::PreKind::BadCompile(_) | ast::PreKind::BadCompileFree(_) => "pre_failed_compile",
                ast::PreKind::FailExec(_) => "pre_failed_exec",
                ast::PreKind::DepthExec(_) => "pre_exec_into_depth_limit",
                ast::PreKind::OkExec(_) => "pre_ok_exec",
                ast::PreKind::SiblingCtx(_) => "pre_sibling_context_diverged_and_executed",
                ast::PreKind::SiblingBind(_) => "pre_sibling_bindings_diverged_and_executed",
                ast::PreKind::StaleDirect(_) | ast::PreKind::StaleJson(_) => "pre_stale_bindings_replaced",
            };
            *fired.entry(k.into()).or_insert(0) += 1;
        }
        let skel = case.skeleton();
        let key = fnv(format!("{}|{}|{}", skel, st.outcome_kind, st.log_digest).as_bytes());
        let stats = RunStats {
            silent: st.silent.map(|s| s.to_string()),
            fired,
            distinct_key: key,
            states: vec![],
            ops: 1,
            callback_events: st.events,
            sim_time_ns: 0,
        };
        let violation = viol.map(|v| {
            let sub = match v.oracle.as_str() {
                "call-history" => v.detail.split_whitespace().next().unwrap_or("").to_string(),
                "result" => {
                    let kind = |s: &str| {
                        if s.starts_with("FAIL") {
                            "failure"
                        } else if s.starts_with("one of") {
                            "open"
                        } else {
                            "value"
                        }
                    };
                    format!("{}->{}", kind(&v.expected), kind(&v.observed))
                }
                _ => String::new(),
            };
            ViolationRec {
                signature: format!("{}:{}", v.oracle, sub),
                oracle: v.oracle,
                expected: v.expected,
                observed: v.observed,
                detail: v.detail,
            }
        });
        RunResult { stats, violation, case_override: None }
    }
}

impl Engine for EnvEngine {
    fn property(&self) -> &'static str {
        match self.prop {
            EnvProp::C05 => "C05",
            EnvProp::C07 => "C07",
            EnvProp::C08 => "C08",
        }
    }
    fn engine_name(&self) -> &'static str {
        "env"
    }
    fn plan(&self, thorough: bool) -> (u64, u64) {
        let rnd = env_u64("VERIF_RANDOM_CASES");
        match self.prop {
            EnvProp::C05 => {
                let en = self.e05_quick.total + self.e05_prog.total + if thorough { self.e05_thorough.total } else { 0 };
                (en, rnd.unwrap_or(if thorough { 3_000_000 } else { 60_000 }))
            }
            EnvProp::C07 => (0, rnd.unwrap_or(if thorough { 1_000_000 } else { 60_000 })),
            EnvProp::C08 => {
                let en = self.e08_has.items.len() as u64 + self.e08_co.total + self.e08_cond.items.len() as u64;
                (en, rnd.unwrap_or(if thorough { 3_000_000 } else { 60_000 }))
            }
        }
    }
    fn enumerated_exhaustive(&self) -> bool {
        !matches!(self.prop, EnvProp::C07)
    }
    fn case(&self, k: u64, seed: u64, thorough: bool) -> J {
        serde_json::to_value(self.gen(k, seed, thorough)).unwrap()
    }
    fn check(&self, case: &J) -> Result<RunResult, String> {
        let c: EnvCase = serde_json::from_value(case.clone()).map_err(|e| format!("bad env case: {e}"))?;
        Ok(self.check_case(&c))
    }
    fn variants(&self, case: &J) -> Vec<J> {
        let c: EnvCase = match serde_json::from_value(case.clone()) {
            Ok(c) => c,
            Err(_) => return vec![],
        };
        let cur = shrink::case_size(&c);
        let mut vs = shrink::case_variants(&c);
        vs.retain(|v| shrink::case_size(v) < cur);
        vs.sort_by_key(shrink::case_size);
        vs.into_iter().map(|v| serde_json::to_value(v).unwrap()).collect()
    }
    fn case_size(&self, case: &J) -> usize {
        serde_json::from_value::<EnvCase>(case.clone()).map(|c| shrink::case_size(&c)).unwrap_or(usize::MAX)
    }
    fn level(&self) -> &'static str {
        match self.prop {
            EnvProp::C05 | EnvProp::C08 => "fault_enumeration",
            EnvProp::C07 => "exploration",
        }
    }
    fn rule(&self) -> String {
        match self.prop {
            EnvProp::C05 => "enumerated tier: every logical tree with <=2 operators from {!,||,&&,?:} x every assignment of the 9 atom kinds {truthy,falsy,failing}x{callback,literal,variable}+unbound to its leaves, and again over the 6 kinds {truthy, falsy, failing stored program referenced by name; truthy, failing callback; unbound} (thorough adds every tree with <=3 operators over the 4 callback/unbound kinds); concrete values, failure classes and chain rendering drawn per case from the seed; random tier: trees to depth 5 incl. match, bool() and macro predicates. A case is distinct by hash(operator skeleton, outcome kind, call-history digest) and non-trivial when at least one rare-condition probe of the reference evaluator fired (short-circuit over a possibly failing operand, failure absorbed, non-bool condition, ...) or a callback event was recorded".into(),
            EnvProp::C07 => "random tier: macro kind x list source (literal, bound, callback-returned, computed list literal) x length 0..64 x body form (logging callback, loop variable, outer variable, stored program, nested macro re-using the name) with scripted failures placed on the first / deciding / after-deciding / last element; maps run under 3 simulator-chosen hash-key sets. Distinct by hash(skeleton, outcome kind, call-history digest); non-trivial when a probe fired or a callback event was recorded".into(),
            EnvProp::C08 => "enumerated tier: has(path) for depth 0..4 x every configuration of the bound tree (present, null leaf, key missing at each level, root unbound, non-map at each level, failing root, callback root) x every member/index syntax mask x 7 placements; coalesce for every vector of argument kinds {present,null,absent,failing}^n, n=0..5 x 7 placements; random tier: nested has/coalesce, JSON-bound trees. Distinct by hash(skeleton, outcome kind, call-history digest); non-trivial when a probe fired or a callback event was recorded".into(),
        }
    }
    fn assumptions(&self) -> Vec<String> {
        vec![
            "the reference lazy evaluator (sim/src/env/model.rs) transcribes the statement correctly; where the statement is silent nothing is compared".into(),
            "callbacks are the only effect channel observed; their answers are a pure function of (site, invocation ordinal)".into(),
            "std draws per-thread hash keys through getrandom (checked by the start-up canary)".into(),
            "a clean batch is evidence, not proof".into(),
        ]
    }
}
