//! Parent/worker orchestration: seeded batches over worker processes, process death as an
//! outcome, minimisation, replay files, known findings, evidence.

use crate::engine::*;
use serde_json::{json, Value as J};
use std::collections::{BTreeMap, HashSet};
use std::io::{BufRead, BufReader, Read, Write};
use std::path::{Path, PathBuf};
use std::process::{Child, Command, Stdio};
use std::sync::mpsc;
use std::time::{Duration, Instant};

pub fn verif_root() -> PathBuf {
    PathBuf::from(std::env::var("VERIF_ROOT").unwrap_or_else(|_| "/verif".into()))
}

/// where evidence/ and replays/ are written (default: the verif root); tools/run_seeded.sh
/// points this at a scratch directory so that runs against a seeded change leave the
/// committed evidence alone
pub fn out_root() -> PathBuf {
    std::env::var("VERIF_OUT_DIR").map(PathBuf::from).unwrap_or_else(|_| verif_root())
}

pub fn seed_from_env() -> u64 {
    std::env::var("VERIF_SEED").ok().and_then(|s| s.parse::<u64>().ok()).unwrap_or(1)
}

fn workers_from_env() -> usize {
    std::env::var("VERIF_WORKERS").ok().and_then(|s| s.parse::<usize>().ok()).filter(|n| *n > 0).unwrap_or(16)
}

pub fn silence_panics() {
    if std::env::var("VERIF_SHOW_PANICS").is_ok() {
        return;
    }
    std::panic::set_hook(Box::new(|_| {}));
}

// ------------------------------------------------------------------------------------------
// worker
// ------------------------------------------------------------------------------------------

#[derive(Default)]
struct Agg {
    cases: u64,
    silent: BTreeMap<String, u64>,
    fired: BTreeMap<String, u64>,
    ops: u64,
    events: u64,
    sim_time_ns: u64,
    distinct: HashSet<u64>,
    distinct_nontrivial: HashSet<u64>,
    states: HashSet<u64>,
    violations: u64,
    samples: Vec<J>,
}

pub fn worker(engine: &dyn Engine, thorough: bool, seed: u64, w: u64, n: u64, outdir: &Path, start: u64) -> i32 {
    silence_panics();
    let (en, rn) = engine.plan(thorough);
    let total = en + rn;
    let t0 = Instant::now();
    let mut agg = Agg::default();
    let mut k = start;
    // first index >= start that belongs to this worker
    while k % n != w {
        k += 1;
    }
    let max_viol = 8;
    while k < total {
        println!("S {}", k);
        let case = engine.case(k, seed, thorough);
        let res = match engine.check(&case) {
            Ok(r) => r,
            Err(e) => {
                println!("E {} {}", k, e.replace('\n', " "));
                return 2;
            }
        };
        agg.cases += 1;
        let st = &res.stats;
        if let Some(s) = &st.silent {
            *agg.silent.entry(s.clone()).or_insert(0) += 1;
        }
        for (f, c) in st.fired.iter() {
            *agg.fired.entry(f.clone()).or_insert(0) += *c;
        }
        agg.ops += st.ops;
        agg.events += st.callback_events;
        agg.sim_time_ns = agg.sim_time_ns.saturating_add(st.sim_time_ns);
        agg.distinct.insert(st.distinct_key);
        if !st.fired.is_empty() || st.callback_events > 0 {
            agg.distinct_nontrivial.insert(st.distinct_key);
        }
        for s in st.states.iter() {
            agg.states.insert(*s);
        }
        if w == 0 && agg.samples.len() < 3 && (agg.cases % 97 == 1) {
            agg.samples.push(engine_describe(engine, &case));
        }
        if let Some(v) = res.violation {
            agg.violations += 1;
            let shown = res.case_override.as_ref().unwrap_or(&case);
            println!("V {} {}", k, json!({"case": shown, "violation": v}));
            if agg.violations >= max_viol {
                break;
            }
        }
        k += n;
    }
    // report
    let rep = json!({
        "worker": w,
        "cases": agg.cases,
        "silent": agg.silent,
        "fired": agg.fired,
        "ops": agg.ops,
        "events": agg.events,
        "sim_time_ns": agg.sim_time_ns,
        "violations": agg.violations,
        "samples": agg.samples,
        "wall_s": t0.elapsed().as_secs_f64(),
        "stopped_early": k < total,
    });
    let _ = std::fs::write(outdir.join(format!("w{}.json", w)), rep.to_string());
    write_hashes(&outdir.join(format!("w{}.distinct", w)), &agg.distinct);
    write_hashes(&outdir.join(format!("w{}.nontrivial", w)), &agg.distinct_nontrivial);
    write_hashes(&outdir.join(format!("w{}.states", w)), &agg.states);
    println!("DONE");
    0
}

fn engine_describe(engine: &dyn Engine, case: &J) -> J {
    let _ = engine;
    describe_case(case)
}

/// add human-readable program texts to an ENV case
pub fn describe_case(case: &J) -> J {
    if let Ok(c) = serde_json::from_value::<crate::env::ast::EnvCase>(case.clone()) {
        return json!({"sources": c.sources(), "case": case});
    }
    case.clone()
}

fn write_hashes(p: &Path, s: &HashSet<u64>) {
    let mut buf = Vec::with_capacity(s.len() * 8);
    for h in s {
        buf.extend_from_slice(&h.to_le_bytes());
    }
    // append: a restarted worker adds to the same file
    if let Ok(mut f) = std::fs::OpenOptions::new().create(true).append(true).open(p) {
        let _ = f.write_all(&buf);
    }
}

fn read_hashes(p: &Path, into: &mut HashSet<u64>) {
    if let Ok(b) = std::fs::read(p) {
        for c in b.chunks_exact(8) {
            into.insert(u64::from_le_bytes(c.try_into().unwrap()));
        }
    }
}

// ------------------------------------------------------------------------------------------
// child helpers
// ------------------------------------------------------------------------------------------

fn self_exe() -> PathBuf {
    std::env::current_exe().expect("current_exe")
}

pub struct ChildOutcome {
    pub result: Option<J>,
    pub died: Option<String>,
}

/// run `sim exec-case <prop>` in a fresh process with the case on stdin
pub fn exec_case_isolated(prop: &str, case: &J, timeout: Duration) -> ChildOutcome {
    let mut child = Command::new(self_exe())
        .arg("exec-case")
        .arg(prop)
        .stdin(Stdio::piped())
        .stdout(Stdio::piped())
        .stderr(Stdio::null())
        .spawn()
        .expect("spawn exec-case");
    {
        let mut si = child.stdin.take().unwrap();
        let _ = si.write_all(case.to_string().as_bytes());
    }
    let mut so = child.stdout.take().unwrap();
    let (tx, rx) = mpsc::channel();
    std::thread::spawn(move || {
        let mut s = String::new();
        let _ = so.read_to_string(&mut s);
        let _ = tx.send(s);
    });
    let t0 = Instant::now();
    loop {
        match child.try_wait() {
            Ok(Some(st)) => {
                let out = rx.recv_timeout(Duration::from_secs(5)).unwrap_or_default();
                if st.success() {
                    let last = out.lines().rev().find(|l| l.starts_with('{')).unwrap_or("");
                    return ChildOutcome { result: serde_json::from_str(last).ok(), died: None };
                } else {
                    return ChildOutcome { result: None, died: Some(describe_exit(&st)) };
                }
            }
            Ok(None) => {
                if t0.elapsed() > timeout {
                    let _ = child.kill();
                    let _ = child.wait();
                    return ChildOutcome { result: None, died: Some("timeout".into()) };
                }
                std::thread::sleep(Duration::from_millis(2));
            }
            Err(e) => return ChildOutcome { result: None, died: Some(format!("wait error {e}")) },
        }
    }
}

fn describe_exit(st: &std::process::ExitStatus) -> String {
    use std::os::unix::process::ExitStatusExt;
    if let Some(sig) = st.signal() {
        let name = match sig {
            6 => "SIGABRT",
            11 => "SIGSEGV",
            9 => "SIGKILL",
            7 => "SIGBUS",
            4 => "SIGILL",
            _ => "signal",
        };
        format!("{}({})", name, sig)
    } else {
        format!("exit({})", st.code().unwrap_or(-1))
    }
}

/// verdict of one case in an isolated process: Some(violation) or None
pub fn isolated_verdict(prop: &str, case: &J) -> Result<Option<ViolationRec>, String> {
    let o = exec_case_isolated(prop, case, Duration::from_secs(60));
    if let Some(d) = o.died {
        return Ok(Some(died_violation(&d)));
    }
    let r = o.result.ok_or("no result from exec-case")?;
    if r.get("error").is_some() {
        return Err(r["error"].as_str().unwrap_or("error").to_string());
    }
    if r["violation"].is_null() {
        Ok(None)
    } else {
        serde_json::from_value(r["violation"].clone()).map(Some).map_err(|e| e.to_string())
    }
}

fn died_violation(how: &str) -> ViolationRec {
    let kind = if how.starts_with("timeout") { "timeout" } else { "process-died" };
    ViolationRec {
        oracle: "process-survives".into(),
        signature: format!("{}:{}", kind, how.split('(').next().unwrap_or(how)),
        expected: "exec returns a value or an error".into(),
        observed: format!("the process running the case ended with {}", how),
        detail: "the run did not return".into(),
    }
}

// ------------------------------------------------------------------------------------------
// parent
// ------------------------------------------------------------------------------------------

struct WorkerSlot {
    child: Child,
    rx: mpsc::Receiver<String>,
    last_started: Option<u64>,
    last_progress: Instant,
    done: bool,
}

fn spawn_worker(prop: &str, thorough: bool, seed: u64, w: u64, n: u64, outdir: &Path, start: u64) -> WorkerSlot {
    let mut child = Command::new(self_exe())
        .arg("worker")
        .arg(prop)
        .arg(if thorough { "thorough" } else { "quick" })
        .arg(seed.to_string())
        .arg(w.to_string())
        .arg(n.to_string())
        .arg(outdir)
        .arg(start.to_string())
        .stdin(Stdio::null())
        .stdout(Stdio::piped())
        .stderr(Stdio::null())
        .spawn()
        .expect("spawn worker");
    let so = child.stdout.take().unwrap();
    let (tx, rx) = mpsc::channel();
    std::thread::spawn(move || {
        let rd = BufReader::new(so);
        for line in rd.lines() {
            match line {
                Ok(l) => {
                    if tx.send(l).is_err() {
                        break;
                    }
                }
                Err(_) => break,
            }
        }
    });
    WorkerSlot { child, rx, last_started: None, last_progress: Instant::now(), done: false }
}

pub struct Found {
    pub k: u64,
    pub case: J,
    pub violation: ViolationRec,
}

pub fn run_check(engine: &dyn Engine, thorough: bool) -> i32 {
    let prop = engine.property();
    let seed = seed_from_env();
    let nworkers = workers_from_env() as u64;
    let root = verif_root();
    let t0 = Instant::now();
    let (en, rn) = engine.plan(thorough);
    let total = en + rn;
    let outdir = root.join("sim/target/runs").join(format!("{}-{}", prop, std::process::id()));
    let _ = std::fs::remove_dir_all(&outdir);
    std::fs::create_dir_all(&outdir).expect("mkdir outdir");
    println!(
        "check {} tier={} VERIF_SEED={} workers={} cases={} (enumerated {} + random {})",
        prop,
        if thorough { "thorough" } else { "quick" },
        seed,
        nworkers,
        total,
        en,
        rn
    );

    let stall = Duration::from_secs(
        std::env::var("VERIF_STALL_S").ok().and_then(|s| s.parse().ok()).unwrap_or(60),
    );
    let mut slots: Vec<WorkerSlot> =
        (0..nworkers).map(|w| spawn_worker(prop, thorough, seed, w, nworkers, &outdir, 0)).collect();
    let mut found: Vec<Found> = vec![];
    let mut harness_error: Option<String> = None;
    let mut deaths = 0u64;
    loop {
        let mut all_done = true;
        for w in 0..slots.len() {
            if slots[w].done {
                continue;
            }
            all_done = false;
            // drain lines
            loop {
                match slots[w].rx.try_recv() {
                    Ok(l) => {
                        slots[w].last_progress = Instant::now();
                        if let Some(rest) = l.strip_prefix("S ") {
                            slots[w].last_started = rest.trim().parse().ok();
                        } else if let Some(rest) = l.strip_prefix("V ") {
                            let mut it = rest.splitn(2, ' ');
                            let k: u64 = it.next().unwrap_or("0").parse().unwrap_or(0);
                            if let Ok(j) = serde_json::from_str::<J>(it.next().unwrap_or("")) {
                                if let Ok(v) = serde_json::from_value::<ViolationRec>(j["violation"].clone()) {
                                    found.push(Found { k, case: j["case"].clone(), violation: v });
                                }
                            }
                        } else if let Some(rest) = l.strip_prefix("E ") {
                            harness_error = Some(rest.to_string());
                        } else if l == "DONE" {
                            slots[w].done = true;
                        }
                    }
                    Err(mpsc::TryRecvError::Empty) => break,
                    Err(mpsc::TryRecvError::Disconnected) => break,
                }
            }
            if slots[w].done {
                let _ = slots[w].child.wait();
                continue;
            }
            let exited = matches!(slots[w].child.try_wait(), Ok(Some(_)));
            let stalled = slots[w].last_progress.elapsed() > stall;
            if exited || stalled {
                // give the reader thread a moment to deliver the tail
                std::thread::sleep(Duration::from_millis(20));
                while let Ok(l) = slots[w].rx.try_recv() {
                    if let Some(rest) = l.strip_prefix("S ") {
                        slots[w].last_started = rest.trim().parse().ok();
                    } else if l == "DONE" {
                        slots[w].done = true;
                    } else if let Some(rest) = l.strip_prefix("E ") {
                        harness_error = Some(rest.to_string());
                    } else if let Some(rest) = l.strip_prefix("V ") {
                        let mut it = rest.splitn(2, ' ');
                        let k: u64 = it.next().unwrap_or("0").parse().unwrap_or(0);
                        if let Ok(j) = serde_json::from_str::<J>(it.next().unwrap_or("")) {
                            if let Ok(v) = serde_json::from_value::<ViolationRec>(j["violation"].clone()) {
                                found.push(Found { k, case: j["case"].clone(), violation: v });
                            }
                        }
                    }
                }
                if slots[w].done {
                    let _ = slots[w].child.wait();
                    continue;
                }
                let how = if stalled && !exited {
                    let _ = slots[w].child.kill();
                    let _ = slots[w].child.wait();
                    "timeout".to_string()
                } else {
                    match slots[w].child.wait() {
                        Ok(st) => {
                            if st.code() == Some(2) {
                                harness_error.get_or_insert("worker exited with a harness error".into());
                            }
                            describe_exit(&st)
                        }
                        Err(e) => format!("wait error {e}"),
                    }
                };
                if harness_error.is_some() {
                    slots[w].done = true;
                    continue;
                }
                deaths += 1;
                let k = slots[w].last_started.unwrap_or(w as u64);
                let case = engine.case(k, seed, thorough);
                found.push(Found { k, case, violation: died_violation(&how) });
                if deaths > 40 {
                    // pathological: stop restarting
                    slots[w].done = true;
                    continue;
                }
                slots[w] = spawn_worker(prop, thorough, seed, w as u64, nworkers, &outdir, k + 1);
            }
        }
        if all_done {
            break;
        }
        std::thread::sleep(Duration::from_millis(5));
    }
    if let Some(e) = harness_error {
        eprintln!("HARNESS ERROR: {}", e);
        return 2;
    }

    // aggregate
    let mut cases = 0u64;
    let mut silent: BTreeMap<String, u64> = BTreeMap::new();
    let mut fired: BTreeMap<String, u64> = BTreeMap::new();
    let (mut ops, mut events, mut sim_ns) = (0u64, 0u64, 0u64);
    let mut samples: Vec<J> = vec![];
    let mut distinct = HashSet::new();
    let mut nontrivial = HashSet::new();
    let mut states = HashSet::new();
    let mut stopped_early = false;
    for w in 0..nworkers {
        if let Ok(s) = std::fs::read_to_string(outdir.join(format!("w{}.json", w))) {
            if let Ok(j) = serde_json::from_str::<J>(&s) {
                cases += j["cases"].as_u64().unwrap_or(0);
                ops += j["ops"].as_u64().unwrap_or(0);
                events += j["events"].as_u64().unwrap_or(0);
                sim_ns = sim_ns.saturating_add(j["sim_time_ns"].as_u64().unwrap_or(0));
                stopped_early |= j["stopped_early"].as_bool().unwrap_or(false);
                if let Some(m) = j["silent"].as_object() {
                    for (k, v) in m {
                        *silent.entry(k.clone()).or_insert(0) += v.as_u64().unwrap_or(0);
                    }
                }
                if let Some(m) = j["fired"].as_object() {
                    for (k, v) in m {
                        *fired.entry(k.clone()).or_insert(0) += v.as_u64().unwrap_or(0);
                    }
                }
                if let Some(a) = j["samples"].as_array() {
                    samples.extend(a.iter().cloned());
                }
            }
        }
        read_hashes(&outdir.join(format!("w{}.distinct", w)), &mut distinct);
        read_hashes(&outdir.join(format!("w{}.nontrivial", w)), &mut nontrivial);
        read_hashes(&outdir.join(format!("w{}.states", w)), &mut states);
    }
    if deaths > 0 {
        *fired.entry("process_died".into()).or_insert(0) += deaths;
    }
    if samples.is_empty() {
        samples.push(describe_case(&engine.case(0, seed, thorough)));
    }

    // violations: minimise, compare with the known-findings file, write replay files
    found.sort_by_key(|f| f.k);
    let known = load_known(&root);
    let mut by_sig: BTreeMap<String, Vec<&Found>> = BTreeMap::new();
    for f in found.iter() {
        by_sig.entry(f.violation.signature.clone()).or_default().push(f);
    }
    let mut new_violations = 0u64;
    let mut known_hits: Vec<String> = vec![];
    let mut replay_paths: Vec<String> = vec![];
    let mut nrep = 0;
    for (sig, fs) in by_sig.iter() {
        // minimise the smallest instance of each signature
        let f = fs.iter().min_by_key(|f| engine.case_size(&f.case)).unwrap();
        let orig_size = engine.case_size(&f.case);
        let (min_case, tried) = minimise(engine, &f.case, sig);
        // confirm in a fresh process
        let (final_case, final_v) = match isolated_verdict(prop, &min_case) {
            Ok(Some(v)) if v.signature == *sig => (min_case, v),
            _ => match isolated_verdict(prop, &f.case) {
                Ok(Some(v)) => (f.case.clone(), v),
                _ => (f.case.clone(), f.violation.clone()),
            },
        };
        let key = finding_key(prop, &final_case, &final_v);
        if let Some(what) = known.iter().find(|k| k.status == "known" && k.property == prop && k.key == key) {
            println!("KNOWN-FINDING: property={} {}", prop, what.what);
            known_hits.push(key.clone());
            continue;
        }
        new_violations += fs.len() as u64;
        nrep += 1;
        let path = out_root().join("replays").join(format!("{}-{}-{}.json", prop, seed, nrep));
        let _ = std::fs::create_dir_all(out_root().join("replays"));
        let rep = json!({
            "property": prop,
            "engine": engine.engine_name(),
            "seed": seed,
            "tier": if thorough { "thorough" } else { "quick" },
            "case_index": f.k,
            "instances_in_batch": fs.len(),
            "finding_key": key,
            "violation": final_v,
            "minimised_from": orig_size,
            "minimised_to": engine.case_size(&final_case),
            "candidates_tried": tried,
            "readable": describe_case(&final_case),
            "case": final_case,
        });
        let _ = std::fs::write(&path, serde_json::to_string_pretty(&rep).unwrap());
        println!("  oracle={} signature={}", final_v.oracle, final_v.signature);
        println!("  expected: {}", final_v.expected);
        println!("  observed: {}", final_v.observed);
        println!("  detail:   {}", final_v.detail);
        println!("VIOLATION property={} replay={}", prop, path.display());
        replay_paths.push(path.display().to_string());
    }

    // evidence
    let wall = t0.elapsed().as_secs_f64();
    let silent_total: u64 = silent.values().sum();
    let mut zero_probes: Vec<String> = vec![];
    for p in expected_probes(prop) {
        if !fired.contains_key(*p) {
            zero_probes.push(p.to_string());
        }
    }
    let ev = json!({
        "property_id": prop,
        "tier": if thorough { "thorough" } else { "quick" },
        "seed": seed,
        "level": engine.level(),
        "wall_s": wall,
        "violations": new_violations,
        "coverage": {
            "evaluations": cases,
            "distinct_nontrivial": nontrivial.len(),
            "distinct_cases": distinct.len(),
            "rule": engine.rule(),
            "exhaustive": engine.enumerated_exhaustive() && !stopped_early,
            "enumerated_cases": en,
            "random_cases": rn,
            "samples": samples,
            "runs_per_hour": if wall > 0.0 { (cases as f64 / wall * 3600.0) as u64 } else { 0 },
            "seeds": format!("VERIF_SEED={} -> per-run seed mix(seed, property, run index), run indices 0..{}", seed, total),
            "ops_executed": ops,
            "callback_events": events,
            "sim_time_ns": sim_ns,
            "sim_time_note": if engine.engine_name() == "env" { "ENV runs have no clock; logical steps = callback_events" } else { "sum of simulated clock advances over all runs" },
            "fault_counts": fired,
            "probes_stuck_at_zero": zero_probes,
            "silent_cases": silent_total,
            "silent_reasons": silent,
            "distinct_states": states.len(),
            "process_deaths": deaths,
            "known_findings_hit": known_hits,
            "replays": replay_paths,
            "components_real": ["rscel tokenizer, compiler (incl. constant folder), VM, macros, built-ins (crate built from /repo's working tree with overflow checks and debug assertions on; C12 unoptimised as the test suite builds it, the others at opt-level 2; default features)", "chrono", "std HashMap/RandomState"],
            "components_stub": ["wall clock (clock_gettime seam)", "hash-key source (getrandom seam)", "thread scheduler (one client thread runnable at a time)", "user callbacks (scripted)", "bound data"],
            "components_not_run": ["python and wasm bindings", "protobuf message values", "extensions/to_sql"],
            "seam_inventory": seam_inventory(),
        },
        "assumptions": engine.assumptions(),
    });
    let evdir = out_root().join("evidence");
    let _ = std::fs::create_dir_all(&evdir);
    let _ = std::fs::write(evdir.join(format!("{}.json", prop)), serde_json::to_string_pretty(&ev).unwrap());
    let _ = std::fs::remove_dir_all(&outdir);
    println!(
        "{}: {} cases in {:.1}s, {} distinct non-trivial, {} silent, {} violation(s), {} known finding(s)",
        prop,
        cases,
        wall,
        nontrivial.len(),
        silent_total,
        new_violations,
        known_hits.len()
    );
    if new_violations > 0 {
        1
    } else {
        0
    }
}

fn expected_probes(prop: &str) -> &'static [&'static str] {
    match prop {
        "C05" => &[
            "or_skips_possibly_failing_rhs",
            "or_absorbs_failing_lhs",
            "or_both_fail",
            "and_stops_on_failing_lhs",
            "and_skips_possibly_failing_rhs",
            "ternary_failing_condition",
            "ternary_nonbool_condition",
            "match_skips_later_cases",
            "match_no_case",
            "stored_program_evaluated",
            "pre_failed_compile",
            "pre_failed_exec",
            "pre_exec_into_depth_limit",
            "pre_sibling_context_diverged_and_executed",
            "pre_sibling_bindings_diverged_and_executed",
        ],
        "C07" => &[
            "all_stops_early",
            "exists_stops_early",
            "exists_one_stops_early",
            "exists_one_second_hit_on_last",
            "macro_body_fails",
            "macro_body_fails_before_last",
            "mapif_skips_element",
            "list_over_32",
            "loop_var_shadows_outer",
            "macro_over_map",
            "stored_program_evaluated",
            "hash_keys_variant",
            "pre_failed_compile",
            "pre_failed_exec",
            "pre_exec_into_depth_limit",
            "pre_sibling_context_diverged_and_executed",
            "pre_sibling_bindings_diverged_and_executed",
        ],
        "C08" => &[
            "has_on_null",
            "has_absent",
            "has_propagates_failure",
            "coalesce_skips_null",
            "coalesce_skips_absent",
            "coalesce_propagates_failure",
            "coalesce_stops_before_last",
            "coalesce_skips_possibly_failing_arg",
            "coalesce_nothing_qualifies",
            "bound_via_json",
            "stored_program_evaluated",
            "pre_failed_compile",
            "pre_failed_exec",
            "pre_exec_into_depth_limit",
            "pre_sibling_context_diverged_and_executed",
            "pre_sibling_bindings_diverged_and_executed",
        ],
        "C09" => &[
            "bare_clock_program_executed",
            "must_read_program_executed",
            "exec_at_other_instant_than_compile",
            "clock_moved_backwards",
            "clock_moved_forwards",
            "clock_frozen",
            "ctx_cloned",
            "exec_on_migrated_context",
            "twin_on_fresh_thread",
        ],
        "C11" => &[
            "twin_on_fresh_thread",
            "twin_without_unreachable_programs",
            "exec_on_migrated_context",
            "exec_repeated",
            "ctx_cloned",
            "bindings_cloned",
            "program_replaced",
            "param_rebound",
            "bound_via_json",
            "function_bound",
            "clock_moved_backwards",
            "list_result_of_macro_compared_with_twin",
            "failed_compile",
            "failed_compile_over_stored_program",
            "interleave",
            "interleave_park",
            "interleave_resume",
            "interleave_start_while_others_parked",
            "interleave_exec_completed_while_others_parked",
            "interleave_nested_start_on_same_thread",
            "interleave_two_or_more_parked",
            "interleave_eight_or_more_parked",
        ],
        "C12" => &[
            "expect_chain:macro_body:le16",
            "expect_chain:macro_body:gt16",
            "expect_cycle:macro_body:1",
            "expect_cycle:mixed:3",
            "expect_graph:cyclic",
            "expect_graph:acyclic",
            "expect_loop:map",
            "expect_resolve-type-first:vp",
            "expect_resolve-variable-before-program",
            "expect_call-function-before-type",
            "expect_call-function-before-macro",
            "expect_map-field-before-method",
            "expect_replace-program-referenced",
            "expect_rebind-variable",
            "expect_json-binding-equals-direct",
            "expect_call-function-before-macro:method",
            "expect_rho:4:cycle4",
            "expect_rho:3:path",
            "expect_dag:4",
            "expect_after-cycle:macro_body",
            "expect_many-absorbed:mixed",
            "expect_two-contexts-same-names",
            "expect_replace-program-referenced-in-macro-body-clone-alive",
        ],
        _ => &[],
    }
}

/// Minimise while the signature stays the same.
pub fn minimise(engine: &dyn Engine, case: &J, sig: &str) -> (J, usize) {
    let prop = engine.property();
    let budget = 1500usize;
    if !engine.isolate() && !sig.starts_with("process-died") && !sig.starts_with("timeout") {
        // in-process minimisation inside one sacrificial child
        let mut child = match Command::new(self_exe())
            .arg("minimise")
            .arg(prop)
            .arg(sig)
            .stdin(Stdio::piped())
            .stdout(Stdio::piped())
            .stderr(Stdio::null())
            .spawn()
        {
            Ok(c) => c,
            Err(_) => return (case.clone(), 0),
        };
        {
            let mut si = child.stdin.take().unwrap();
            let _ = si.write_all(case.to_string().as_bytes());
        }
        let mut out = String::new();
        let _ = child.stdout.take().unwrap().read_to_string(&mut out);
        let ok = child.wait().map(|s| s.success()).unwrap_or(false);
        if ok {
            if let Some(l) = out.lines().rev().find(|l| l.starts_with('{')) {
                if let Ok(j) = serde_json::from_str::<J>(l) {
                    let tried = j["tried"].as_u64().unwrap_or(0) as usize;
                    return (j["case"].clone(), tried);
                }
            }
        }
        return (case.clone(), 0);
    }
    // isolated: one process per candidate
    let mut cur = case.clone();
    let mut tried = 0usize;
    let t0 = Instant::now();
    'outer: loop {
        for v in engine.variants(&cur) {
            if tried >= budget || t0.elapsed() > Duration::from_secs(240) {
                break 'outer;
            }
            tried += 1;
            if let Ok(Some(viol)) = isolated_verdict(prop, &v) {
                if viol.signature == sig {
                    cur = v;
                    continue 'outer;
                }
            }
        }
        break;
    }
    (cur, tried)
}

/// in-process minimiser (runs inside the sacrificial `minimise` child)
pub fn minimise_here(engine: &dyn Engine, case: &J, sig: &str) -> (J, usize) {
    let mut cur = case.clone();
    let mut tried = 0usize;
    let t0 = Instant::now();
    'outer: loop {
        for v in engine.variants(&cur) {
            if tried >= 4000 || t0.elapsed() > Duration::from_secs(120) {
                break 'outer;
            }
            tried += 1;
            if let Ok(r) = engine.check(&v) {
                if r.violation.map(|x| x.signature).as_deref() == Some(sig) {
                    cur = v;
                    continue 'outer;
                }
            }
        }
        break;
    }
    (cur, tried)
}

// ------------------------------------------------------------------------------------------
// known findings
// ------------------------------------------------------------------------------------------

#[derive(serde::Deserialize, Clone, Debug)]
pub struct Known {
    pub property: String,
    pub key: String,
    pub what: String,
    pub status: String,
    #[serde(default)]
    pub commit: String,
}

pub fn load_known(root: &Path) -> Vec<Known> {
    let p = root.join("known_findings.json");
    match std::fs::read_to_string(&p) {
        Ok(s) => match serde_json::from_str::<J>(&s) {
            Ok(j) => j["findings"]
                .as_array()
                .map(|a| a.iter().filter_map(|x| serde_json::from_value(x.clone()).ok()).collect())
                .unwrap_or_default(),
            Err(_) => vec![],
        },
        Err(_) => vec![],
    }
}

/// Specific identification of a minimised violation: signature + the operator skeleton of
/// the minimised case, so that a different violation of the same property is still reported.
pub fn finding_key(prop: &str, case: &J, v: &ViolationRec) -> String {
    let skel = if let Ok(c) = serde_json::from_value::<crate::env::ast::EnvCase>(case.clone()) {
        c.skeleton()
    } else {
        crate::world::case_skeleton(case)
    };
    format!("{}|{}|{}", prop, v.signature, skel)
}

// ------------------------------------------------------------------------------------------
// seam inventory probe (DESIGN.md §1): never raises a violation
// ------------------------------------------------------------------------------------------

pub fn seam_inventory() -> J {
    let pats: [(&str, &[&str]); 6] = [
        ("unsafe", &["unsafe "]),
        ("globals", &["static ", "thread_local!", "lazy_static", "OnceCell", "OnceLock", "LazyLock"]),
        ("sync", &["Mutex", "RwLock", "Atomic", "Condvar", "mpsc"]),
        ("clock", &["SystemTime", "Instant::", "Utc::now", "Local::"]),
        ("io_env", &["std::fs", "std::net", "std::env", "File::"]),
        ("threads", &["thread::spawn", "rayon", "tokio"]),
    ];
    let mut out = serde_json::Map::new();
    let mut files = vec![];
    collect_rs(Path::new("/repo/rscel/src"), &mut files);
    for (name, ps) in pats.iter() {
        let mut hits: Vec<String> = vec![];
        for f in files.iter() {
            if f.to_string_lossy().contains("/tests/") {
                continue;
            }
            if let Ok(s) = std::fs::read_to_string(f) {
                for (i, line) in s.lines().enumerate() {
                    let t = line.trim_start();
                    if t.starts_with("//") {
                        continue;
                    }
                    if ps.iter().any(|p| line.contains(p)) {
                        // `&'static` lifetimes and `const` tables are not mutable globals
                        if *name == "globals" && (line.contains("&'static") || line.contains("'static ")) && !line.contains("static mut") && !t.starts_with("static ") && !t.starts_with("pub static ") {
                            continue;
                        }
                        hits.push(format!("{}:{}", f.strip_prefix("/repo/").unwrap_or(f).display(), i + 1));
                    }
                }
            }
        }
        out.insert(name.to_string(), json!(hits));
    }
    let expected_clock = 2;
    let clock_n = out["clock"].as_array().map(|a| a.len()).unwrap_or(0);
    let complete = out["unsafe"].as_array().map(|a| a.is_empty()).unwrap_or(false)
        && out["globals"].as_array().map(|a| a.is_empty()).unwrap_or(false)
        && out["sync"].as_array().map(|a| a.is_empty()).unwrap_or(false)
        && out["io_env"].as_array().map(|a| a.is_empty()).unwrap_or(false)
        && out["threads"].as_array().map(|a| a.is_empty()).unwrap_or(false)
        && clock_n <= expected_clock;
    out.insert("inventory_complete".into(), json!(complete));
    out.insert(
        "note".into(),
        json!("if inventory_complete is false the operation-granularity argument of DESIGN.md §2.3 is no longer justified for the listed sites"),
    );
    J::Object(out)
}

fn collect_rs(dir: &Path, out: &mut Vec<PathBuf>) {
    if let Ok(rd) = std::fs::read_dir(dir) {
        let mut es: Vec<_> = rd.filter_map(|e| e.ok()).map(|e| e.path()).collect();
        es.sort();
        for p in es {
            if p.is_dir() {
                collect_rs(&p, out);
            } else if p.extension().map(|x| x == "rs").unwrap_or(false) {
                out.push(p);
            }
        }
    }
}
