use serde_json::Value as J;

pub fn case_skeleton(case: &J) -> String {
    case.get("skeleton").and_then(|s| s.as_str()).unwrap_or("world").to_string()
}
