//! WORLD engine (DESIGN.md §3.1): histories of API operations over contexts, binding sets and
//! client threads, under a simulated wall clock and simulator-chosen hash keys.
//!
//! One run = one explicit operation list.  Every client is a real OS thread with default stack
//! size whose hash keys the case fixes; exactly one thread is runnable at any instant (the
//! scheduler hands an operation to a client over a channel and waits for the reply), so the
//! order of whole operations is the case's order and nothing else.  The reference model never
//! evaluates CEL: it stores, per context, name -> (source, compile instant) and, per binding
//! set, name -> value, and decides by comparing the real execution with a *fresh twin* built
//! from the model on a freshly spawned thread with other hash keys.

pub mod gen;

use crate::engine::*;
use crate::prng::fnv;
use crate::seams;
use crate::val::{Class, Outcome, V};
use rscel::{BindContext, CelContext, Program};
use serde::{Deserialize, Serialize};
use serde_json::Value as J;
use std::collections::{BTreeMap, BTreeSet};
use std::sync::mpsc;
use std::sync::{Arc, Mutex};

#[derive(Clone, Copy, PartialEq, Eq, Debug)]
pub enum WorldProp {
    C09,
    C11,
    C12,
}

impl WorldProp {
    pub fn id(self) -> &'static str {
        match self {
            WorldProp::C09 => "C09",
            WorldProp::C11 => "C11",
            WorldProp::C12 => "C12",
        }
    }
}

#[derive(Clone, Debug, Serialize, Deserialize, PartialEq)]
pub enum OpK {
    NewCtx { c: usize },
    CloneCtx { from: usize, to: usize },
    DropCtx { c: usize },
    /// add_program_str (new or replacing); `must_read`: the generator knows that every
    /// evaluation of this text reaches now()/timestamp() (C09 oracle c)
    Add { c: usize, name: String, src: String, #[serde(default)] must_read: bool },
    /// Program::from_source on the client's thread, then add_program(clone)
    AddShared { c: usize, name: String, src: String },
    /// a text that does not compile: add_program_str under the name `zz_bad` (never used,
    /// never inspected) or, `free`, Program::from_source without a context; the failure
    /// must not matter to anything that follows
    AddBad {
        c: usize,
        src: String,
        free: bool,
        /// the failing add is made under the name of this stored program, which must survive
        #[serde(default)]
        over: Option<String>,
    },
    NewB { b: usize },
    CloneB { from: usize, to: usize },
    Bind { b: usize, name: String, val: V },
    BindJson { b: usize, vals: BTreeMap<String, V> },
    /// bind a simulator-owned function that ignores its arguments and returns `ret`
    BindFunc { b: usize, name: String, ret: V },
    /// bind a simulator-owned macro that ignores its arguments and returns `ret` (C12 only:
    /// the fresh twin does not know about macros)
    BindMacro { b: usize, name: String, ret: V },
    /// exec `times` times; the twin runs on a fresh thread with `keys`; `minimal`: the twin
    /// context holds only the programs reachable from `name`
    Exec { c: usize, name: String, b: usize, times: u8, keys: [u8; 16], minimal: bool },
    /// set the simulated wall clock (absolute, so that dropping operations keeps meaning)
    Clock { ns: i64 },
    /// C12: expectation supplied by the scenario generator for the next observations of
    /// exec(c, name, b): Some(value) or None = "must be a failure"
    Expect { c: usize, name: String, b: usize, keys: [u8; 16], want: Want },
    /// several executions in flight at once (DESIGN.md §12.1): every part is an exec on its
    /// own client thread, context and binding set; each call of a bound *yield function*
    /// (`BindFunc` with ret = Other("yield")) parks the calling client inside its exec and
    /// returns control to the scheduler, which then starts the next part or resumes a parked
    /// one: byte j of `sched` picks action (byte mod #actions; 255 = the last one) from
    /// ["start the next part" if one is left] ++ [parked parts in parking order] at step j,
    /// action 0 once `sched` is used up (so an empty `sched` starts every part, then resumes
    /// them first-parked-first-resumed).
    /// Every part's result must equal its fresh twin's (which never parks).
    Interleave { parts: Vec<IPart>, sched: Vec<u8>, keys: [u8; 16] },
    /// internal: what the scheduler sends to a client for one part of an `Interleave`
    IStart { c: usize, name: String, b: usize },
}

#[derive(Clone, Debug, Serialize, Deserialize, PartialEq)]
pub struct IPart {
    pub t: usize,
    pub c: usize,
    pub name: String,
    pub b: usize,
}

#[derive(Clone, Debug, Serialize, Deserialize, PartialEq)]
pub enum Want {
    Val(V),
    /// any failure (an error result), but the process must survive
    Fail,
    /// a value or a failure, never a dead process, never a value other than this one
    ValOrFail(V),
    /// some type value (the name resolved to the built-in type, not to a variable or program)
    AnyType,
}

#[derive(Clone, Debug, Serialize, Deserialize, PartialEq)]
pub struct Op {
    pub t: usize,
    pub k: OpK,
}

#[derive(Clone, Debug, Serialize, Deserialize)]
pub struct WorldCase {
    pub world: String,
    /// hash keys of each client thread
    pub clients: Vec<[u8; 16]>,
    pub start_ns: i64,
    /// scenario label (C12) used in signatures and the finding key
    #[serde(default)]
    pub label: String,
    pub ops: Vec<Op>,
}

pub fn case_skeleton(case: &J) -> String {
    match serde_json::from_value::<WorldCase>(case.clone()) {
        Ok(c) => {
            let mut s = c.label.clone();
            s.push('/');
            for o in c.ops.iter() {
                s.push(match &o.k {
                    OpK::NewCtx { .. } => 'N',
                    OpK::CloneCtx { .. } => 'C',
                    OpK::DropCtx { .. } => 'D',
                    OpK::Add { .. } => 'A',
                    OpK::AddShared { .. } => 'S',
                    OpK::AddBad { .. } => 'B',
                    OpK::NewB { .. } => 'n',
                    OpK::CloneB { .. } => 'c',
                    OpK::Bind { .. } => 'b',
                    OpK::BindJson { .. } => 'j',
                    OpK::BindFunc { .. } => 'f',
                    OpK::BindMacro { .. } => 'm',
                    OpK::Exec { .. } => 'X',
                    OpK::Clock { .. } => 'T',
                    OpK::Expect { .. } => 'E',
                    OpK::Interleave { .. } => 'I',
                    OpK::IStart { .. } => 'i',
                });
            }
            s
        }
        Err(_) => "world".into(),
    }
}

// ---------------------------------------------------------------------------------------------
// client threads
// ---------------------------------------------------------------------------------------------

type Ctxs = Arc<Mutex<BTreeMap<usize, CelContext>>>;

#[derive(Debug, Default)]
struct Reply {
    /// the operation referred to an object that does not exist (or is owned by another
    /// thread): nothing was done
    skipped: bool,
    add_err: Option<(Class, String)>,
    /// per exec: outcome, clock reads during it
    execs: Vec<(Outcome, u64)>,
    /// C09 oracle d: bytecode dump of the same text compiled at a different instant on the
    /// same thread differs from the stored program's dump
    bc_differs_across_instants: Option<(String, String)>,
    /// name -> (source, digest of bytecode dump) for every live context and universe name
    ctxs: BTreeMap<usize, BTreeMap<String, (String, u64)>>,
    /// binding sets of this thread: name -> (value, is_bound)
    binds: BTreeMap<usize, BTreeMap<String, (Option<V>, bool)>>,
}

enum Req {
    Do(OpK),
    /// continue an exec that is parked inside a yield function
    Resume,
    /// report the registry and this client's binding sets, do nothing else
    Snap,
    Quit,
}

enum Up {
    Done(Reply),
    /// the client is inside an exec, blocked in a yield function
    Parked,
}

struct ClientChan {
    rx: mpsc::Receiver<Req>,
    tx: mpsc::Sender<Up>,
}

thread_local! {
    /// the channels of the client thread running on this OS thread (None on twin threads)
    static CHAN: std::cell::RefCell<Option<ClientChan>> = const { std::cell::RefCell::new(None) };
    /// true while this client executes a part of an `Interleave`
    static PARKING: std::cell::Cell<bool> = const { std::cell::Cell::new(false) };
    /// the binding sets this client owns (BindContext is not Send: they never leave the thread)
    static BINDS: std::cell::RefCell<BTreeMap<usize, BindContext<'static>>> = const { std::cell::RefCell::new(BTreeMap::new()) };
    static REGISTRY: std::cell::RefCell<Option<(Ctxs, Vec<String>)>> = const { std::cell::RefCell::new(None) };
}

/// one part of an `Interleave` on the calling client thread.  The context leaves the registry
/// for the duration of the exec (other clients run while this one is parked inside it); the
/// binding sets are only borrowed shared, so a nested part may use them as well.
fn run_part(c: usize, name: &str, b: usize) -> Reply {
    let mut rep = Reply::default();
    let (ctxs, universe) = REGISTRY.with(|r| r.borrow().clone()).expect("client registry");
    let taken = lock(&ctxs).remove(&c);
    BINDS.with(|bs| {
        let binds = bs.borrow();
        match (taken, binds.get(&b)) {
            (Some(mut x), Some(bb)) => {
                let was = PARKING.with(|p| p.replace(true));
                rep.execs.push(guarded_exec(&mut x, name, bb));
                PARKING.with(|p| p.set(was));
                lock(&ctxs).insert(c, x);
            }
            (Some(x), None) => {
                lock(&ctxs).insert(c, x);
                rep.skipped = true;
            }
            _ => rep.skipped = true,
        }
        rep.binds = snapshot_binds(&binds, &universe);
    });
    rep.ctxs = snapshot_ctxs(&lock(&ctxs), &universe);
    rep
}

/// called by the yield function on whatever thread evaluates it: park inside the exec until
/// the scheduler says Resume; a part started meanwhile on this same client runs right here,
/// nested in the parked exec's stack (same-thread re-entrancy)
fn park_here() {
    if !PARKING.with(|p| p.get()) {
        return;
    }
    let send = |u: Up| CHAN.with(|c| c.borrow().as_ref().map(|ch| ch.tx.send(u).is_ok()).unwrap_or(false));
    let recv = || CHAN.with(|c| c.borrow().as_ref().map(|ch| ch.rx.recv().ok()).unwrap_or(None));
    if !send(Up::Parked) {
        return;
    }
    loop {
        match recv() {
            Some(Req::Do(OpK::IStart { c, name, b })) => {
                let rep = run_part(c, &name, b);
                if !send(Up::Done(rep)) {
                    return;
                }
            }
            // Resume, or a hang-up
            _ => return,
        }
    }
}

fn snapshot_binds(binds: &BTreeMap<usize, BindContext<'static>>, universe: &[String]) -> BTreeMap<usize, BTreeMap<String, (Option<V>, bool)>> {
    let mut out = BTreeMap::new();
    for (id, b) in binds.iter() {
        let mut m = BTreeMap::new();
        for n in universe.iter() {
            let v = b.get_param(n).map(V::from_cel);
            let ib = b.is_bound(n);
            if v.is_some() || ib {
                m.insert(n.clone(), (v, ib));
            }
        }
        out.insert(*id, m);
    }
    out
}

fn lock(c: &Ctxs) -> std::sync::MutexGuard<'_, BTreeMap<usize, CelContext>> {
    c.lock().unwrap_or_else(|e| e.into_inner())
}

fn to_json(v: &V) -> serde_json::Value {
    use serde_json::json;
    match v {
        V::Int(i) => json!(i),
        V::UInt(u) => json!(u),
        V::F(b) => json!(f64::from_bits(*b)),
        V::Bool(b) => json!(b),
        V::Str(s) => json!(s),
        V::List(l) => serde_json::Value::Array(l.iter().map(to_json).collect()),
        V::Map(m) => serde_json::Value::Object(m.iter().map(|(k, v)| (k.clone(), to_json(v))).collect()),
        _ => serde_json::Value::Null,
    }
}

/// values that survive JSON unchanged (no uint/bytes/timestamps; ints stay ints)
pub fn json_safe(v: &V) -> bool {
    match v {
        V::Int(_) | V::Bool(_) | V::Str(_) | V::Null => true,
        // an unsigned value above the int range cannot come back as an int
        V::UInt(u) => *u > i64::MAX as u64,
        // a finite double with a fractional part stays a double (an integral one may come
        // back as an int, which no statement settles)
        V::F(b) => {
            let f = f64::from_bits(*b);
            f.is_finite() && f.fract() != 0.0
        }
        V::List(l) => l.iter().all(json_safe),
        V::Map(m) => m.values().all(json_safe),
        _ => false,
    }
}

/// a simulator-owned function answering with a constant (leaked: a handful per run)
fn const_func(ret: V) -> &'static rscel::RsCelFunction {
    // `Other("arg0")` stands for the identity function (answers with its first argument)
    let yielding = ret == V::Other("yield".into());
    let identity = yielding || ret == V::Other("arg0".into());
    Box::leak(Box::new(move |_this: rscel::CelValue, args: Vec<rscel::CelValue>| -> rscel::CelValue {
        if yielding {
            park_here();
        }
        if identity {
            args.into_iter().next().unwrap_or_else(rscel::CelValue::from_null)
        } else {
            ret.to_cel()
        }
    }))
}

/// a simulator-owned macro answering with a constant (leaked: a handful per run)
fn const_macro(ret: V) -> &'static rscel::RsCelMacro {
    let b: Box<rscel::RsCelMacro> = Box::new(move |_interp, _this, _args| ret.to_cel());
    Box::leak(b)
}

fn guarded_exec(ctx: &mut CelContext, name: &str, b: &BindContext) -> (Outcome, u64) {
    let before = seams::clock_reads();
    let r = std::panic::catch_unwind(std::panic::AssertUnwindSafe(|| ctx.exec(name, b)));
    let reads = seams::clock_reads() - before;
    let o = match r {
        Ok(r) => Outcome::from_result(&r),
        Err(_) => Outcome::Panic("panic".into()),
    };
    (o, reads)
}

fn snapshot_ctxs(ctxs: &BTreeMap<usize, CelContext>, universe: &[String]) -> BTreeMap<usize, BTreeMap<String, (String, u64)>> {
    let mut out = BTreeMap::new();
    for (id, c) in ctxs.iter() {
        let mut m = BTreeMap::new();
        for n in universe {
            if let Some(p) = c.get_program(n) {
                // the inspection calls of the API ("inspect details" in C11's alphabet) are made
                // after every operation: they must not change anything either
                let _ = (p.params().len(), p.ast().is_some(), p.details().params().len(), p.bytecode().len());
                let _ = c.program_details(n).map(|d| (d.params().len(), d.source().map(|s| s.len())));
                // the digest of a stored program covers its bytecode and the parameter list it
                // reports (sorted: the list is kept in a hash set)
                let mut ps: Vec<&str> = p.params();
                ps.sort();
                let mut ds: Vec<String> = c.program_details(n).map(|d| d.params().iter().map(|x| x.to_string()).collect()).unwrap_or_default();
                ds.sort();
                let dump = format!("{}\nparams:{}\ndetails:{}", p.dumps_bc(), ps.join(","), ds.join(","));
                m.insert(n.clone(), (p.source().unwrap_or("").to_string(), fnv(dump.as_bytes())));
            }
        }
        out.insert(*id, m);
    }
    out
}

fn client_main(keys: [u8; 16], ctxs: Ctxs, universe: Vec<String>, c09: bool, rx: mpsc::Receiver<Req>, tx: mpsc::Sender<Up>) {
    seams::set_thread_hash_keys(keys);
    CHAN.with(|c| *c.borrow_mut() = Some(ClientChan { rx, tx }));
    REGISTRY.with(|r| *r.borrow_mut() = Some((ctxs.clone(), universe.clone())));
    let recv = || CHAN.with(|c| c.borrow().as_ref().unwrap().rx.recv());
    let send = |r: Reply| CHAN.with(|c| c.borrow().as_ref().unwrap().tx.send(Up::Done(r)).is_ok());
    loop {
        let op = match recv() {
            Ok(Req::Do(op)) => Some(op),
            Ok(Req::Snap) => None,
            _ => break,
        };
        if let Some(OpK::IStart { c, name, b }) = &op {
            if !send(run_part(*c, name, *b)) {
                break;
            }
            continue;
        }
        let mut rep = Reply::default();
        BINDS.with(|bs| {
            let mut binds = bs.borrow_mut();
            let mut cs = lock(&ctxs);
            match op.unwrap_or(OpK::IStart { c: 0, name: String::new(), b: 0 }) {
                OpK::IStart { .. } | OpK::Interleave { .. } => {}
                OpK::NewCtx { c } => {
                    cs.insert(c, CelContext::new());
                }
                OpK::CloneCtx { from, to } => match cs.get(&from) {
                    Some(x) => {
                        let y = x.clone();
                        cs.insert(to, y);
                    }
                    None => rep.skipped = true,
                },
                OpK::DropCtx { c } => {
                    if cs.remove(&c).is_none() {
                        rep.skipped = true;
                    }
                }
                OpK::Add { c, name, src, .. } => match cs.get_mut(&c) {
                    Some(x) => {
                        let r = std::panic::catch_unwind(std::panic::AssertUnwindSafe(|| x.add_program_str(&name, &src)));
                        match r {
                            Ok(Ok(())) => {
                                if c09 {
                                    // same text, same thread, another instant: the compiled
                                    // program must not depend on when it was compiled
                                    let here = seams::clock_now();
                                    seams::clock_set(here.wrapping_add(86_400_000_000_123));
                                    let other = std::panic::catch_unwind(|| Program::from_source(&src).map(|p| p.dumps_bc()).unwrap_or_default())
                                        .unwrap_or_else(|_| "<panic while compiling>".into());
                                    seams::clock_set(here);
                                    let mine = x.get_program(&name).map(|p| p.dumps_bc()).unwrap_or_default();
                                    if mine != other {
                                        rep.bc_differs_across_instants = Some((mine, other));
                                    }
                                }
                            }
                            Ok(Err(e)) => rep.add_err = Some((Class::of(&e), e.to_string())),
                            Err(_) => rep.add_err = Some((Class::Internal, "panic while compiling".into())),
                        }
                    }
                    None => rep.skipped = true,
                },
                OpK::AddShared { c, name, src } => match cs.get_mut(&c) {
                    Some(x) => match std::panic::catch_unwind(|| Program::from_source(&src)) {
                        Ok(Ok(p)) => {
                            x.add_program(&name, p.clone());
                            drop(p);
                        }
                        Ok(Err(e)) => rep.add_err = Some((Class::of(&e), e.to_string())),
                        Err(_) => rep.add_err = Some((Class::Internal, "panic while compiling".into())),
                    },
                    None => rep.skipped = true,
                },
                OpK::AddBad { c, src, free, over } => {
                    let r = std::panic::catch_unwind(std::panic::AssertUnwindSafe(|| {
                        if free {
                            Program::from_source(&src).map(|_| ())
                        } else if let Some(x) = cs.get_mut(&c) {
                            x.add_program_str(over.as_deref().unwrap_or("zz_bad"), &src)
                        } else {
                            Err(rscel::CelError::misc("no such context"))
                        }
                    }));
                    match r {
                        Ok(Ok(())) => {}
                        Ok(Err(e)) => rep.add_err = Some((Class::of(&e), e.to_string())),
                        Err(_) => rep.add_err = Some((Class::Internal, "panic while compiling".into())),
                    }
                }
                OpK::NewB { b } => {
                    binds.insert(b, BindContext::new());
                }
                OpK::CloneB { from, to } => match binds.get(&from) {
                    Some(x) => {
                        let y = x.clone();
                        binds.insert(to, y);
                    }
                    None => rep.skipped = true,
                },
                OpK::Bind { b, name, val } => match binds.get_mut(&b) {
                    Some(x) => x.bind_param(&name, val.to_cel()),
                    None => rep.skipped = true,
                },
                OpK::BindJson { b, vals } => match binds.get_mut(&b) {
                    Some(x) => {
                        let obj = serde_json::Value::Object(vals.iter().map(|(k, v)| (k.clone(), to_json(v))).collect());
                        let jv: rscel::serde_json::Value = rscel::serde_json::from_str(&obj.to_string()).expect("json");
                        if let Err(e) = x.bind_params_from_json_obj(jv) {
                            rep.add_err = Some((Class::of(&e), e.to_string()));
                        }
                    }
                    None => rep.skipped = true,
                },
                OpK::BindFunc { b, name, ret } => match binds.get_mut(&b) {
                    Some(x) => x.bind_func(&name, const_func(ret)),
                    None => rep.skipped = true,
                },
                OpK::BindMacro { b, name, ret } => match binds.get_mut(&b) {
                    Some(x) => x.bind_macro(&name, const_macro(ret)),
                    None => rep.skipped = true,
                },
                OpK::Exec { c, name, b, times, .. } => match (cs.get_mut(&c), binds.get(&b)) {
                    (Some(x), Some(bb)) => {
                        for _ in 0..times.max(1) {
                            rep.execs.push(guarded_exec(x, &name, bb));
                        }
                    }
                    _ => rep.skipped = true,
                },
                OpK::Expect { c, name, b, .. } => match (cs.get_mut(&c), binds.get(&b)) {
                    (Some(x), Some(bb)) => rep.execs.push(guarded_exec(x, &name, bb)),
                    _ => rep.skipped = true,
                },
                OpK::Clock { ns } => seams::clock_set(ns),
            }
            rep.ctxs = snapshot_ctxs(&cs, &universe);
            rep.binds = snapshot_binds(&binds, &universe);
        });
        if !send(rep) {
            break;
        }
    }
    // binding sets die with their thread
    BINDS.with(|bs| bs.borrow_mut().clear());
}

// ---------------------------------------------------------------------------------------------
// reference model
// ---------------------------------------------------------------------------------------------

#[derive(Clone, Debug, PartialEq)]
struct ProgSnap {
    src: String,
    add_ns: i64,
    bc: u64,
}

#[derive(Default)]
struct ModelW {
    ctxs: BTreeMap<usize, BTreeMap<String, ProgSnap>>,
    /// binding set -> (owner thread, params)
    binds: BTreeMap<usize, (usize, BTreeMap<String, V>)>,
    /// binding set -> bound functions (name -> constant answer)
    funcs: BTreeMap<usize, BTreeMap<String, V>>,
}

pub fn idents(src: &str) -> BTreeSet<String> {
    let mut out = BTreeSet::new();
    let b = src.as_bytes();
    let mut i = 0;
    while i < b.len() {
        if b[i].is_ascii_alphabetic() || b[i] == b'_' {
            let s = i;
            while i < b.len() && (b[i].is_ascii_alphanumeric() || b[i] == b'_') {
                i += 1;
            }
            out.insert(src[s..i].to_string());
        } else {
            i += 1;
        }
    }
    out
}

/// programs reachable from `name` through identifier occurrences (an over-approximation of
/// the reference graph: an identifier inside a string literal also counts)
fn reachable(progs: &BTreeMap<String, ProgSnap>, name: &str) -> BTreeSet<String> {
    let mut seen = BTreeSet::new();
    let mut todo = vec![name.to_string()];
    while let Some(n) = todo.pop() {
        if !seen.insert(n.clone()) {
            continue;
        }
        if let Some(p) = progs.get(&n) {
            for id in idents(&p.src) {
                if progs.contains_key(&id) && !seen.contains(&id) {
                    todo.push(id);
                }
            }
        }
    }
    seen.retain(|n| progs.contains_key(n));
    seen
}

fn reaches_clock(progs: &BTreeMap<String, ProgSnap>, reach: &BTreeSet<String>) -> bool {
    reach.iter().any(|n| {
        let ids = idents(&progs[n].src);
        ids.contains("now") || ids.contains("timestamp")
    })
}

struct TwinOut {
    compile_err: Option<String>,
    outcome: Option<Outcome>,
}

/// the fresh twin: new thread, new hash keys, new context and bindings built from the model
fn run_twin(
    keys: [u8; 16],
    progs: Vec<(String, String, i64)>,
    params: BTreeMap<String, V>,
    funcs: BTreeMap<String, V>,
    name: String,
    exec_ns: i64,
    compile_at_add_instant: bool,
) -> TwinOut {
    let restore = seams::clock_now();
    let h = std::thread::spawn(move || {
        seams::set_thread_hash_keys(keys);
        let mut ctx = CelContext::new();
        for (n, src, add_ns) in progs.iter() {
            seams::clock_set(if compile_at_add_instant { *add_ns } else { exec_ns });
            let r = std::panic::catch_unwind(std::panic::AssertUnwindSafe(|| ctx.add_program_str(n, src)));
            match r {
                Ok(Ok(())) => {}
                Ok(Err(e)) => return TwinOut { compile_err: Some(format!("{}: {}", n, e)), outcome: None },
                Err(_) => return TwinOut { compile_err: Some(format!("{}: panic", n)), outcome: None },
            }
        }
        seams::clock_set(exec_ns);
        let mut b = BindContext::new();
        for (k, v) in params.iter() {
            b.bind_param(k, v.to_cel());
        }
        for (k, v) in funcs.iter() {
            b.bind_func(k, const_func(v.clone()));
        }
        let (o, _) = guarded_exec(&mut ctx, &name, &b);
        TwinOut { compile_err: None, outcome: Some(o) }
    });
    let r = h.join().unwrap_or(TwinOut { compile_err: Some("twin thread died".into()), outcome: None });
    seams::clock_set(restore);
    r
}

/// O-twin: the observed outcome of exec(name) against a fresh context + fresh bindings built
/// from the model on a freshly spawned thread with other hash keys
#[allow(clippy::too_many_arguments)]
fn twin_verdict(
    prop: WorldProp,
    progs: &BTreeMap<String, ProgSnap>,
    params: BTreeMap<String, V>,
    funcs: BTreeMap<String, V>,
    name: &str,
    keys: [u8; 16],
    minimal: bool,
    first: &Outcome,
    now_ns: i64,
    i: usize,
    t: usize,
    how: &str,
    fired: &mut BTreeMap<String, u64>,
) -> Option<ViolationRec> {
    let mut fire = |k: &str| *fired.entry(k.to_string()).or_insert(0) += 1;
    let reach = reachable(progs, name);
    let clocky = reaches_clock(progs, &reach);
    let list: Vec<(String, String, i64)> = progs
        .iter()
        .filter(|(n, _)| !minimal || reach.contains(*n))
        .map(|(n, p)| (n.clone(), p.src.clone(), p.add_ns))
        .collect();
    if minimal && list.len() < progs.len() {
        fire("twin_without_unreachable_programs");
    }
    // a clock-free program is also moved in time: only the clock may differ and it
    // must not matter
    let exec_ns = if clocky { now_ns } else { now_ns.wrapping_add(777_000_000_123) };
    let tw = run_twin(keys, list, params, funcs, name.to_string(), exec_ns, prop != WorldProp::C09);
    fire("twin_on_fresh_thread");
    if let Some(e) = tw.compile_err {
        return Some(viol("twin", "compile", "the stored texts compile in a fresh context as they did in the original".into(), e, format!("op {}", i)));
    }
    let t_out = tw.outcome.unwrap();
    if !t_out.same(first) {
        let mut sub = format!("{}{}!={}", how, kind_of(first), kind_of(&t_out));
        if prop == WorldProp::C09 {
            sub = format!("frozen-clock:{}", sub);
        }
        return Some(viol(
            if prop == WorldProp::C09 { "now-twin" } else { "twin" },
            &sub,
            format!("{} (fresh context + fresh bindings built from the model, fresh thread, other hash keys{})", t_out, if prop == WorldProp::C09 { ", compiled at the instant of execution" } else { "" }),
            format!("{}", first),
            format!("op {}: {}exec `{}` = `{}` on client {} at {} ns (compiled at {} ns)", i, how, name, progs.get(name).map(|p| p.src.as_str()).unwrap_or("<no such program>"), t, now_ns, progs.get(name).map(|p| p.add_ns).unwrap_or(0)),
        ));
    }
    None
}

fn kind_of(o: &Outcome) -> &'static str {
    match o {
        Outcome::Val(_) => "value",
        Outcome::Fail(..) => "failure",
        Outcome::Panic(_) => "panic",
    }
}

fn viol(oracle: &str, sub: &str, expected: String, observed: String, detail: String) -> ViolationRec {
    ViolationRec { oracle: oracle.into(), signature: format!("{}:{}", oracle, sub), expected, observed, detail }
}

// ---------------------------------------------------------------------------------------------
// one run
// ---------------------------------------------------------------------------------------------

pub fn universe_of(case: &WorldCase) -> Vec<String> {
    let mut u: BTreeSet<String> = BTreeSet::new();
    for o in case.ops.iter() {
        match &o.k {
            OpK::Add { name, src, .. } | OpK::AddShared { name, src, .. } => {
                u.insert(name.clone());
                for i in idents(src) {
                    u.insert(i);
                }
            }
            OpK::Bind { name, .. } | OpK::BindFunc { name, .. } | OpK::BindMacro { name, .. } => {
                u.insert(name.clone());
            }
            OpK::BindJson { vals, .. } => {
                for k in vals.keys() {
                    u.insert(k.clone());
                }
            }
            _ => {}
        }
    }
    u.into_iter().collect()
}

pub fn run_case(prop: WorldProp, case: &WorldCase) -> RunResult {
    let mut stats = RunStats::default();
    let mut fired: BTreeMap<String, u64> = BTreeMap::new();
    let mut fire = |fired: &mut BTreeMap<String, u64>, k: &str| *fired.entry(k.to_string()).or_insert(0) += 1;
    let universe = universe_of(case);
    let ctxs: Ctxs = Arc::new(Mutex::new(BTreeMap::new()));
    seams::clock_set(case.start_ns);

    let mut chans: Vec<(mpsc::Sender<Req>, mpsc::Receiver<Up>, std::thread::JoinHandle<()>)> = vec![];
    for keys in case.clients.iter() {
        let (tx, rx) = mpsc::channel::<Req>();
        let (rtx, rrx) = mpsc::channel::<Up>();
        let (k, c, u) = (*keys, ctxs.clone(), universe.clone());
        let c09 = prop == WorldProp::C09;
        let h = std::thread::spawn(move || client_main(k, c, u, c09, rx, rtx));
        chans.push((tx, rrx, h));
    }
    fire(&mut fired, "client_thread_spawned");
    *fired.get_mut("client_thread_spawned").unwrap() = case.clients.len() as u64;

    let mut model = ModelW::default();
    let mut violation: Option<ViolationRec> = None;
    let mut last_exec_thread: BTreeMap<usize, usize> = BTreeMap::new();
    let mut clock_total: u64 = 0;
    let mut states: Vec<u64> = vec![];
    let mut silent: Option<String> = None;
    let mut dkey = String::new();

    'ops: for (i, op) in case.ops.iter().enumerate() {
        if op.t >= chans.len() {
            continue;
        }
        // ownership of binding sets is part of the model: an operation on a binding set from
        // a thread that does not own it cannot be expressed with the real API (BindContext is
        // not Send) and is skipped
        let now_ns = seams::clock_now();
        // ---- several executions in flight at once
        let mut part_reps: Vec<(usize, Option<Reply>)> = vec![];
        if let OpK::Interleave { parts, sched, .. } = &op.k {
            // a part needs its own client and context; anything else cannot be expressed with
            // the real API and is left out (so that every sub-case of a case is a case)
            // (two parts on one client are legal: the second runs nested inside the first's
            // parked exec, on the same OS thread)
            let mut used_c = BTreeSet::new();
            let valid: Vec<usize> = (0..parts.len())
                .filter(|j| {
                    let p = &parts[*j];
                    p.t < chans.len()
                        && model.ctxs.contains_key(&p.c)
                        && model.binds.get(&p.b).map(|(o, _)| *o == p.t).unwrap_or(false)
                        && used_c.insert(p.c)
                })
                .collect();
            let mut started = 0usize;
            // parked parts in parking order; per client only the innermost one can be resumed
            let mut parked: Vec<usize> = vec![];
            let mut si = 0usize;
            let mut max_parked = 0usize;
            let mut died = false;
            for j in valid.iter() {
                part_reps.push((*j, None));
            }
            loop {
                let can_start = started < valid.len();
                let resumable: Vec<usize> = parked
                    .iter()
                    .enumerate()
                    .filter(|(pi, slot)| {
                        let t = parts[valid[**slot]].t;
                        !parked[pi + 1..].iter().any(|later| parts[valid[*later]].t == t)
                    })
                    .map(|(pi, _)| pi)
                    .collect();
                let n_actions = resumable.len() + can_start as usize;
                if n_actions == 0 {
                    break;
                }
                let choice = match sched.get(si) {
                    Some(255) => n_actions - 1,
                    Some(x) => *x as usize % n_actions,
                    None => 0,
                };
                si += 1;
                let slot = if !(can_start && choice == 0) {
                    let slot = parked.remove(resumable[choice - can_start as usize]);
                    let p = &parts[valid[slot]];
                    if chans[p.t].0.send(Req::Resume).is_err() {
                        died = true;
                        break;
                    }
                    fire(&mut fired, "interleave_resume");
                    slot
                } else {
                    let slot = started;
                    started += 1;
                    let p = &parts[valid[slot]];
                    if chans[p.t].0.send(Req::Do(OpK::IStart { c: p.c, name: p.name.clone(), b: p.b })).is_err() {
                        died = true;
                        break;
                    }
                    if !parked.is_empty() {
                        fire(&mut fired, "interleave_start_while_others_parked");
                    }
                    if parked.iter().any(|q| parts[valid[*q]].t == p.t) {
                        fire(&mut fired, "interleave_nested_start_on_same_thread");
                    }
                    slot
                };
                let p = &parts[valid[slot]];
                match chans[p.t].1.recv() {
                    Ok(Up::Parked) => {
                        parked.push(slot);
                        max_parked = max_parked.max(parked.len());
                        fire(&mut fired, "interleave_park");
                    }
                    Ok(Up::Done(r)) => {
                        if !parked.is_empty() {
                            fire(&mut fired, "interleave_exec_completed_while_others_parked");
                        }
                        part_reps[slot].1 = Some(r);
                    }
                    Err(_) => {
                        died = true;
                        break;
                    }
                }
            }
            if died {
                violation = Some(viol("process-survives", "client-thread-died", "every interleaved exec returns".into(), "a client thread died during an interleaved exec".into(), format!("op {}", i)));
                break;
            }
            if max_parked >= 2 {
                fire(&mut fired, "interleave_two_or_more_parked");
            }
            if max_parked >= 8 {
                fire(&mut fired, "interleave_eight_or_more_parked");
            }
            stats.ops += valid.len() as u64;
        }
        let snap_only = matches!(op.k, OpK::Interleave { .. } | OpK::IStart { .. });
        let (tx, rrx, _) = &chans[op.t];
        if tx.send(if snap_only { Req::Snap } else { Req::Do(op.k.clone()) }).is_err() {
            violation = Some(viol("process-survives", "client-thread-died", "the client thread serves the operation".into(), "client thread gone".into(), format!("op {}", i)));
            break;
        }
        let rep = match rrx.recv() {
            Ok(Up::Done(r)) => r,
            _ => {
                violation = Some(viol("process-survives", "client-thread-died", "the operation returns".into(), "the client thread died during the operation".into(), format!("op {} {:?}", i, op.k)));
                break;
            }
        };
        stats.ops += 1;
        if rep.skipped {
            fire(&mut fired, "op_skipped_invalid");
            continue;
        }
        // ---- model transition + per-op oracles
        match &op.k {
            OpK::NewCtx { c } => {
                model.ctxs.insert(*c, BTreeMap::new());
            }
            OpK::CloneCtx { from, to } => {
                if let Some(m) = model.ctxs.get(from).cloned() {
                    let mut m = m;
                    // bytecode digests of the clone are read from the clone itself
                    if let Some(obs) = rep.ctxs.get(to) {
                        for (n, s) in m.iter_mut() {
                            if let Some((_, bc)) = obs.get(n) {
                                s.bc = *bc;
                            }
                        }
                    }
                    model.ctxs.insert(*to, m);
                    fire(&mut fired, "ctx_cloned");
                }
            }
            OpK::DropCtx { c } => {
                model.ctxs.remove(c);
            }
            OpK::Add { c, name, src, .. } | OpK::AddShared { c, name, src } => {
                if let Some((cl, msg)) = &rep.add_err {
                    silent = Some("a generated program did not compile".into());
                    if std::env::var("VERIF_DEBUG").is_ok() {
                        eprintln!("ADDERR `{}`: {}", src, msg);
                    }
                    dkey.push_str(&format!("adderr:{:?}:{};", cl, msg.len()));
                    break 'ops;
                }
                let bc = rep.ctxs.get(c).and_then(|m| m.get(name)).map(|x| x.1).unwrap_or(0);
                if let Some(m) = model.ctxs.get_mut(c) {
                    if m.contains_key(name) {
                        fire(&mut fired, "program_replaced");
                    }
                    m.insert(name.clone(), ProgSnap { src: src.clone(), add_ns: now_ns, bc });
                }
                if let Some((mine, other)) = &rep.bc_differs_across_instants {
                    violation = Some(viol(
                        "now-bytecode",
                        "compile-instant-in-program",
                        "the compiled program does not depend on the instant of compilation".into(),
                        format!("bytecode compiled at {} ns: {}", now_ns, mine.replace('\n', "; ")),
                        format!("op {}: `{}`; same text compiled one day later on the same thread: {}", i, src, other.replace('\n', "; ")),
                    ));
                    break 'ops;
                }
            }
            OpK::AddBad { c, src, free, over } => {
                if rep.add_err.is_some() {
                    fire(&mut fired, "failed_compile");
                    if over.is_some() {
                        fire(&mut fired, "failed_compile_over_stored_program");
                    }
                } else if let (false, Some(name)) = (*free, over) {
                    // the text compiled after all: an ordinary replace
                    let bc = rep.ctxs.get(c).and_then(|m| m.get(name)).map(|x| x.1).unwrap_or(0);
                    if let Some(mm) = model.ctxs.get_mut(c) {
                        mm.insert(name.clone(), ProgSnap { src: src.clone(), add_ns: now_ns, bc });
                    }
                }
            }
            OpK::NewB { b } => {
                model.binds.insert(*b, (op.t, BTreeMap::new()));
                model.funcs.insert(*b, BTreeMap::new());
            }
            OpK::CloneB { from, to } => {
                if let Some((_, m)) = model.binds.get(from).cloned() {
                    model.binds.insert(*to, (op.t, m));
                    let f = model.funcs.get(from).cloned().unwrap_or_default();
                    model.funcs.insert(*to, f);
                    fire(&mut fired, "bindings_cloned");
                }
            }
            OpK::Bind { b, name, val } => {
                if let Some((_, m)) = model.binds.get_mut(b) {
                    if m.insert(name.clone(), val.clone()).is_some() {
                        fire(&mut fired, "param_rebound");
                    }
                }
            }
            OpK::BindFunc { b, name, ret } => {
                if model.binds.contains_key(b) {
                    model.funcs.entry(*b).or_default().insert(name.clone(), ret.clone());
                    fire(&mut fired, "function_bound");
                }
            }
            OpK::BindMacro { .. } => {
                fire(&mut fired, "macro_bound");
            }
            OpK::BindJson { b, vals } => {
                if rep.add_err.is_some() {
                    silent = Some("bind_params_from_json_obj refused the object".into());
                    break 'ops;
                }
                if let Some((_, m)) = model.binds.get_mut(b) {
                    for (k, v) in vals {
                        m.insert(k.clone(), v.clone());
                    }
                    fire(&mut fired, "bound_via_json");
                }
            }
            OpK::Clock { ns } => {
                let d = ns.wrapping_sub(now_ns);
                clock_total = clock_total.saturating_add(d.unsigned_abs());
                fire(&mut fired, if d < 0 { "clock_moved_backwards" } else if d == 0 { "clock_frozen" } else { "clock_moved_forwards" });
            }
            OpK::Exec { c, name, b, keys, minimal, .. } => {
                let progs = match model.ctxs.get(c) {
                    Some(p) => p.clone(),
                    None => continue,
                };
                let params = match model.binds.get(b) {
                    Some((_, p)) => p.clone(),
                    None => continue,
                };
                if let Some(prev) = last_exec_thread.insert(*c, op.t) {
                    if prev != op.t {
                        fire(&mut fired, "exec_on_migrated_context");
                    }
                }
                if rep.execs.len() > 1 {
                    fire(&mut fired, "exec_repeated");
                }
                let reach = reachable(&progs, name);
                let clocky = reaches_clock(&progs, &reach);
                stats.callback_events += rep.execs.len() as u64;
                // repetition
                let first = rep.execs[0].0.clone();
                for (j, (o, _)) in rep.execs.iter().enumerate() {
                    if !o.same(&first) {
                        violation = Some(viol("repeat", &format!("{}!={}", kind_of(&first), kind_of(o)), format!("{}", first), format!("{}", o), format!("op {}: exec #{} of `{}` differs from exec #0 (same context, same bindings, same instant)", i, j, progs.get(name).map(|p| p.src.as_str()).unwrap_or("?"))));
                        break 'ops;
                    }
                }
                dkey.push_str(&format!("{}:{};", kind_of(&first), if clocky { "clk" } else { "pure" }));
                if prop == WorldProp::C09 {
                    let src = progs.get(name).map(|p| p.src.trim().to_string()).unwrap_or_default();
                    let must = case.ops.iter().rev().find_map(|o| match &o.k {
                        OpK::Add { name: n, src: s, must_read, .. } if *n == *name && progs.get(name).map(|p| p.src == *s).unwrap_or(false) => Some(*must_read),
                        _ => None,
                    });
                    for (o, reads) in rep.execs.iter() {
                        if src == "now()" || src == "timestamp()" {
                            fire(&mut fired, "bare_clock_program_executed");
                            if *o != Outcome::Val(V::Ts(now_ns)) {
                                violation = Some(viol("now-bare", "not-the-instant-of-exec", format!("ts({}ns) (the simulated instant of this execution)", now_ns), format!("{}", o), format!("op {}: `{}` compiled at {} ns", i, src, progs[name].add_ns)));
                                break 'ops;
                            }
                        }
                        if must == Some(true) && reach.len() == 1 {
                            fire(&mut fired, "must_read_program_executed");
                            if *reads == 0 {
                                violation = Some(viol("now-reads", "no-clock-read-during-exec", "at least one wall-clock read during an execution that evaluates now()/timestamp()".into(), "0 clock reads".into(), format!("op {}: `{}` compiled at {} ns, executed at {} ns, result {}", i, src, progs[name].add_ns, now_ns, o)));
                                break 'ops;
                            }
                        }
                    }
                    if progs.get(name).map(|p| p.add_ns != now_ns).unwrap_or(false) {
                        fire(&mut fired, "exec_at_other_instant_than_compile");
                    }
                } else if !clocky {
                    if let Some((_, reads)) = rep.execs.iter().find(|(_, r)| *r > 0) {
                        violation = Some(viol("clock-purity", "clock-read-by-clock-free-program", "0 wall-clock reads".into(), format!("{} reads", reads), format!("op {}: `{}` reaches neither now() nor timestamp()", i, progs.get(name).map(|p| p.src.as_str()).unwrap_or("?"))));
                        break 'ops;
                    }
                }
                // twin
                let funcs = model.funcs.get(b).cloned().unwrap_or_default();
                if let Some(v) = twin_verdict(prop, &progs, params, funcs, name, *keys, *minimal, &first, now_ns, i, op.t, "", &mut fired) {
                    violation = Some(v);
                    break 'ops;
                }
                if let Outcome::Val(V::List(_)) = &first {
                    if progs.get(name).map(|p| p.src.contains("map(") || p.src.contains("filter(")).unwrap_or(false) {
                        fire(&mut fired, "list_result_of_macro_compared_with_twin");
                    }
                }
            }
            OpK::IStart { .. } => {}
            OpK::Interleave { parts, keys, .. } => {
                fire(&mut fired, "interleave");
                for (j, r) in part_reps.iter() {
                    let p = &parts[*j];
                    let r = match r {
                        Some(r) if !r.skipped && !r.execs.is_empty() => r,
                        _ => continue,
                    };
                    let progs = match model.ctxs.get(&p.c) {
                        Some(x) => x.clone(),
                        None => continue,
                    };
                    let params = match model.binds.get(&p.b) {
                        Some((_, x)) => x.clone(),
                        None => continue,
                    };
                    let funcs = model.funcs.get(&p.b).cloned().unwrap_or_default();
                    stats.callback_events += 1;
                    let first = r.execs[0].0.clone();
                    dkey.push_str(&format!("i{};", kind_of(&first)));
                    // each part gets its own twin keys derived from the op's
                    let mut k2 = *keys;
                    k2[0] ^= *j as u8;
                    if let Some(v) = twin_verdict(prop, &progs, params, funcs, &p.name, k2, false, &first, now_ns, i, p.t, "interleaved:", &mut fired) {
                        violation = Some(v);
                        break 'ops;
                    }
                }
            }
            OpK::Expect { c, name, b, keys, want } => {
                let progs = match model.ctxs.get(c) {
                    Some(p) => p.clone(),
                    None => continue,
                };
                if model.binds.get(b).is_none() {
                    continue;
                }
                let _ = keys;
                let o = rep.execs[0].0.clone();
                dkey.push_str(&format!("{}:{};", case.label, kind_of(&o)));
                let ok = match (want, &o) {
                    (Want::Val(v), Outcome::Val(x)) => v == x,
                    (Want::Fail, Outcome::Fail(..)) => true,
                    (Want::ValOrFail(v), Outcome::Val(x)) => v == x,
                    (Want::ValOrFail(_), Outcome::Fail(..)) => true,
                    (Want::AnyType, Outcome::Val(V::Type(_))) => true,
                    _ => false,
                };
                fire(&mut fired, &format!("expect_{}", case.label));
                if !ok {
                    let exp = match want {
                        Want::Val(v) => format!("{}", v),
                        Want::Fail => "a failure (error result)".into(),
                        Want::ValOrFail(v) => format!("{} or a failure", v),
                        Want::AnyType => "a type value (the built-in type of that name)".into(),
                    };
                    let got = match &o {
                        Outcome::Fail(c, _) => format!("failure-{:?}", c),
                        other => kind_of(other).to_string(),
                    };
                    violation = Some(viol("resolve", &format!("{}:{}", case.label, got), exp, format!("{}", o), format!("op {}: exec `{}` = `{}`", i, name, progs.get(name).map(|p| p.src.as_str()).unwrap_or("<no such program>"))));
                    break 'ops;
                }
            }
        }
        // ---- O-frozen: every live context and every binding set of this thread equals the model
        for (c, m) in model.ctxs.iter() {
            let obs = rep.ctxs.get(c).cloned().unwrap_or_default();
            for n in universe.iter() {
                let want = m.get(n);
                let got = obs.get(n);
                let same = match (want, got) {
                    (None, None) => true,
                    (Some(w), Some((src, bc))) => w.src == *src && w.bc == *bc,
                    _ => false,
                };
                if !same {
                    violation = Some(viol(
                        "frozen",
                        "stored-program-changed",
                        format!("context c{} program `{}`: {}", c, n, want.map(|w| format!("`{}`", w.src)).unwrap_or("absent".into())),
                        got.map(|(s, bc)| format!("`{}` (bytecode digest {:x})", s, bc)).unwrap_or("absent".into()),
                        format!("after op {} {:?}", i, op.k),
                    ));
                    break 'ops;
                }
            }
        }
        for (b, (owner, m)) in model.binds.iter() {
            let part_rep = part_reps.iter().find_map(|(j, r)| match (&op.k, r) {
                (OpK::Interleave { parts, .. }, Some(r)) if parts[*j].t == *owner => Some(r),
                _ => None,
            });
            if *owner != op.t && part_rep.is_none() {
                continue;
            }
            let obs = if *owner == op.t { rep.binds.get(b).cloned().unwrap_or_default() } else { part_rep.unwrap().binds.get(b).cloned().unwrap_or_default() };
            for n in universe.iter() {
                let want = m.get(n);
                let (got, bound) = obs.get(n).cloned().unwrap_or((None, false));
                // is_bound also reports built-in functions and macros of that name
                let ok = match want {
                    Some(w) => got.as_ref() == Some(w),
                    None => got.is_none(),
                };
                if !ok {
                    violation = Some(viol(
                        "frozen",
                        if want.is_none() { "binding-appeared" } else { "binding-changed" },
                        format!("binding set b{} `{}`: {}", b, n, want.map(|w| format!("{}", w)).unwrap_or("unbound".into())),
                        format!("{} (is_bound={})", got.map(|g| format!("{}", g)).unwrap_or("unbound".into()), bound),
                        format!("after op {} {:?}", i, op.k),
                    ));
                    break 'ops;
                }
            }
        }
        // abstract state after the operation
        let mut st = String::new();
        for (c, m) in model.ctxs.iter() {
            st.push_str(&format!("c{}:", c));
            for (n, p) in m {
                st.push_str(&format!("{}={};", n, fnv(p.src.as_bytes())));
            }
        }
        for (b, (o, m)) in model.binds.iter() {
            st.push_str(&format!("b{}@{}:", b, o));
            for (n, v) in m {
                st.push_str(&format!("{}={};", n, v));
            }
        }
        states.push(fnv(st.as_bytes()));
    }

    for (tx, _, _) in chans.iter() {
        let _ = tx.send(Req::Quit);
    }
    for (_, _, h) in chans {
        let _ = h.join();
    }
    stats.silent = silent;
    stats.fired = fired;
    stats.states = states;
    stats.sim_time_ns = clock_total;
    stats.distinct_key = fnv(format!("{}|{}", case_skeleton(&serde_json::to_value(case).unwrap()), dkey).as_bytes());
    RunResult { stats, violation, case_override: None }
}

// ---------------------------------------------------------------------------------------------
// engine
// ---------------------------------------------------------------------------------------------

pub struct WorldEngine {
    pub prop: WorldProp,
}

fn env_u64(name: &str) -> Option<u64> {
    std::env::var(name).ok().and_then(|s| s.parse().ok())
}

impl Engine for WorldEngine {
    fn property(&self) -> &'static str {
        self.prop.id()
    }
    fn engine_name(&self) -> &'static str {
        "world"
    }
    fn plan(&self, thorough: bool) -> (u64, u64) {
        let rnd = env_u64("VERIF_RANDOM_CASES");
        match self.prop {
            WorldProp::C09 => (gen::c09_enumerated(), rnd.unwrap_or(if thorough { 150_000 } else { 12_000 })),
            WorldProp::C11 => (gen::c11_enumerated(), rnd.unwrap_or(if thorough { 100_000 } else { 8_000 })),
            WorldProp::C12 => (gen::c12_enumerated(thorough), rnd.unwrap_or(if thorough { 400_000 } else { 12_000 })),
        }
    }
    fn enumerated_exhaustive(&self) -> bool {
        false
    }
    fn case(&self, k: u64, seed: u64, thorough: bool) -> J {
        serde_json::to_value(gen::case(self.prop, k, seed, thorough)).unwrap()
    }
    fn check(&self, case: &J) -> Result<RunResult, String> {
        let c: WorldCase = serde_json::from_value(case.clone()).map_err(|e| format!("bad world case: {e}"))?;
        Ok(run_case(self.prop, &c))
    }
    fn variants(&self, case: &J) -> Vec<J> {
        let c: WorldCase = match serde_json::from_value(case.clone()) {
            Ok(c) => c,
            Err(_) => return vec![],
        };
        let mut out: Vec<WorldCase> = vec![];
        let n = c.ops.len();
        // drop halves, quarters, then single operations
        let mut chunk = n / 2;
        while chunk >= 1 {
            let mut s = 0;
            while s < n {
                let mut d = c.clone();
                let e = (s + chunk).min(n);
                d.ops.drain(s..e);
                out.push(d);
                s += chunk;
            }
            if chunk == 1 {
                break;
            }
            chunk /= 2;
        }
        // one client thread only
        if c.clients.len() > 1 {
            let mut d = c.clone();
            d.clients.truncate(1);
            for o in d.ops.iter_mut() {
                o.t = 0;
            }
            out.push(d);
        }
        for (i, o) in c.ops.iter().enumerate() {
            match &o.k {
                OpK::Exec { times, minimal, .. } => {
                    if *times > 1 {
                        let mut d = c.clone();
                        if let OpK::Exec { times, .. } = &mut d.ops[i].k {
                            *times = 1;
                        }
                        out.push(d);
                    }
                    if !*minimal {
                        let mut d = c.clone();
                        if let OpK::Exec { minimal, .. } = &mut d.ops[i].k {
                            *minimal = true;
                        }
                        out.push(d);
                    }
                }
                OpK::AddShared { c: cc, name, src } => {
                    let mut d = c.clone();
                    d.ops[i].k = OpK::Add { c: *cc, name: name.clone(), src: src.clone(), must_read: false };
                    out.push(d);
                }
                OpK::BindJson { b, vals } if vals.len() == 1 => {
                    let mut d = c.clone();
                    let (k, v) = vals.iter().next().unwrap();
                    d.ops[i].k = OpK::Bind { b: *b, name: k.clone(), val: v.clone() };
                    out.push(d);
                }
                _ => {}
            }
        }
        let cur = self.case_size(case);
        let mut vs: Vec<J> = out.into_iter().map(|v| serde_json::to_value(v).unwrap()).collect();
        vs.retain(|v| self.case_size(v) < cur);
        vs.sort_by_key(|v| self.case_size(v));
        vs
    }
    fn case_size(&self, case: &J) -> usize {
        match serde_json::from_value::<WorldCase>(case.clone()) {
            Ok(c) => {
                c.ops.len() * 100
                    + c.clients.len() * 10
                    + c.ops
                        .iter()
                        .map(|o| match &o.k {
                            OpK::Exec { times, minimal, .. } => *times as usize + if *minimal { 0 } else { 1 },
                            OpK::AddShared { .. } | OpK::BindJson { .. } => 1,
                            _ => 0,
                        })
                        .sum::<usize>()
            }
            Err(_) => usize::MAX,
        }
    }
    fn isolate(&self) -> bool {
        self.prop == WorldProp::C12
    }
    fn level(&self) -> &'static str {
        "exploration"
    }
    fn rule(&self) -> String {
        match self.prop {
            WorldProp::C09 => "time clause only. Seeded histories {new/clone context, add program (text reaching now()/timestamp() in every position: bare, arithmetic, accessor receiver, macro body and range, call argument, f-string, taken and untaken ?:/||/&& branches, behind a stored-program reference), clock move (+1 ns, seconds, days, years, backwards, boundary instants), exec x1..3} over 1..4 client threads; every program is compiled at one instant and executed at others. Oracles: bare now()/timestamp() returns exactly the simulated instant of the exec; result equals that of the same texts compiled and executed at the exec instant on a fresh thread; an exec whose evaluated path contains the call reads the clock; the bytecode does not depend on the compile instant. Distinct by hash(op-kind sequence, outcome kinds); non-trivial when a clock move, clone, migration or other probe fired".into(),
            WorldProp::C11 => "seeded operation histories over {new/clone/drop context, add / replace program (add_program_str and shared Program), new/clone bindings, bind / rebind (direct and from JSON), exec x1..3, clock move} on 1..4 (rarely up to 16) client threads with simulator-chosen hash keys, one thread runnable at a time; program texts aimed at carried state: macros over literal/bound maps and lists, loop variables re-using outer names, reduce, references between stored programs, has/coalesce, f-strings, now()/timestamp(). Oracles after every exec: repeat (k executions agree), twin (fresh context+bindings built from the model on a fresh thread with other hash keys, at another instant when the program cannot reach the clock), clock-purity (no clock read by clock-free programs); after every operation: frozen (every stored program's source and bytecode, every binding of every live object equals the model; clones are separate model objects). Distinct by hash(op-kind sequence, outcome kinds per exec); non-trivial when any probe fired".into(),
            WorldProp::C12 => "scenario families, each a short history ending in observed execs with an expectation the scenario generator derives without evaluating CEL: name collisions (type vs variable vs program; bound function vs macro vs type constructor; map field vs method), replace/rebind then exec, JSON-bound vs directly bound values, reference chains 1..64 through every referencing construct, cycles (self, mutual, through macro bodies, call arguments, has/coalesce, f-strings), long loops over a chain; run on default-size (2 MiB) thread stacks in worker processes whose death is an outcome".into(),
        }
    }
    fn assumptions(&self) -> Vec<String> {
        vec![
            "operation granularity is exact: rscel has no global, lock or atomic (seam inventory re-checked on every run), exec takes &mut CelContext, BindContext is not Send".into(),
            "std draws per-thread hash keys through getrandom and chrono reads CLOCK_REALTIME through clock_gettime (both checked by the start-up canary)".into(),
            "results are compared in canonical form: maps by sorted key, floats by bit pattern, failures by class (the statements speak of results, not wording)".into(),
            "the reference graph between stored programs is over-approximated by identifier occurrence".into(),
            "a clean batch is evidence, not proof".into(),
        ]
    }
}
