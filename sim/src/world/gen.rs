//! Seeded generators of WORLD cases.  Everything is derived from mix(VERIF_SEED, property, k).

use super::{IPart, Op, OpK, Want, WorldCase, WorldProp};
use crate::prng::{mix, Rng};
use crate::val::V;
use std::collections::BTreeMap;

pub fn case(prop: WorldProp, k: u64, seed: u64, thorough: bool) -> WorldCase {
    match prop {
        WorldProp::C11 => {
            if k < c11_enumerated() {
                gen11_enumerated(k, mix(seed, "C11e", k))
            } else if k % 4 == 3 {
                gen11_interleave(mix(seed, "C11i", k))
            } else {
                gen11(mix(seed, "C11", k))
            }
        }
        WorldProp::C09 => {
            if k < c09_enumerated() {
                gen09_enumerated(k, mix(seed, "C09e", k))
            } else {
                gen09(mix(seed, "C09", k))
            }
        }
        WorldProp::C12 => {
            let en = c12_enumerated(thorough);
            if k < en {
                gen12_enumerated(k, mix(seed, "C12e", k), thorough)
            } else {
                gen12_random(mix(seed, "C12", k))
            }
        }
    }
}

const VARS: [&str; 4] = ["x0", "x1", "x2", "x3"];
const PROGS: [&str; 5] = ["p0", "p1", "p2", "p3", "p4"];
/// includes keys that differ only in letter case and keys that are prefixes of one another
const KEYS: [&str; 18] = ["a", "b", "c", "d", "e", "f", "g", "h", "k1", "k2", "zz", "m", "A", "K1", "Zz", "zZ", "aa", "B"];

/// an instant between 2001 and 2090 with nanosecond detail
fn instant(r: &mut Rng) -> i64 {
    r.range(980_000_000, 3_786_000_000) * 1_000_000_000 + r.range(0, 999_999_999)
}

fn small_int(r: &mut Rng) -> i64 {
    r.range(-20, 99)
}

fn word(r: &mut Rng) -> String {
    const W: [&str; 11] = ["", "a", "b", "ab", "x", "hello", "k1", "zz", "a b", "a  b", " a b"];
    r.pick(&W).to_string()
}

fn map_value(r: &mut Rng, n: usize, strs: bool) -> V {
    let mut m = BTreeMap::new();
    let off = r.usize(KEYS.len());
    for i in 0..n {
        let k = KEYS[(off + i) % KEYS.len()].to_string();
        m.insert(k, if strs { V::Str(word(r)) } else { V::Int(small_int(r)) });
    }
    V::Map(m)
}

pub fn value(r: &mut Rng, depth: u32) -> V {
    match r.weighted(&[4, 3, 1, 1, 3, 5, 1]) {
        0 => V::Int(small_int(r)),
        1 => V::Str(word(r)),
        2 => V::Bool(r.chance(1, 2)),
        3 => V::Null,
        4 => {
            let n = r.usize(5);
            V::List((0..n).map(|_| if depth > 0 && r.chance(1, 4) { value(r, depth - 1) } else { V::Int(small_int(r)) }).collect())
        }
        5 => {
            let n = 2 + r.usize(8);
            let strs = r.chance(1, 3);
            map_value(r, n, strs)
        }
        _ => {
            let mut m = BTreeMap::new();
            m.insert("f".to_string(), if depth > 0 { value(r, depth - 1) } else { V::Int(1) });
            m.insert("g".to_string(), V::Null);
            V::Map(m)
        }
    }
}

struct SrcGen<'r> {
    r: &'r mut Rng,
    /// names of stored programs that may be referenced
    progs: Vec<String>,
    clock: bool,
    /// loop variables in scope
    scope: Vec<String>,
}

impl<'r> SrcGen<'r> {
    fn loop_var(&mut self) -> String {
        // sometimes re-use the name of a bound variable or of a stored program
        match self.r.weighted(&[6, 2, 1]) {
            0 => self.r.pick(&["v", "k", "e"]).to_string(),
            1 => self.r.pick(&VARS).to_string(),
            _ => self.r.pick(&PROGS).to_string(),
        }
    }

    fn atom(&mut self) -> String {
        let w_prog = if self.progs.is_empty() { 0 } else { 4 };
        let w_scope = if self.scope.is_empty() { 0 } else { 6 };
        let w_clock = if self.clock { 3 } else { 0 };
        match self.r.weighted(&[3, 2, 5, w_prog, w_scope, 2, 3, w_clock, 3]) {
            8 => self.builtin(),
            0 => V::Int(small_int(self.r)).render(),
            1 => V::Str(word(self.r)).render(),
            2 if self.r.chance(1, 12) => {
                // a loop-variable name read where no macro binds it: unbound (or whatever the
                // caller bound under that name), whatever ran before
                let n = *self.r.pick(&["v", "k", "e", "acc"]);
                if self.r.chance(1, 2) { format!("has({})", n) } else { n.to_string() }
            }
            2 => self.r.pick(&VARS).to_string(),
            3 => self.r.pick(&self.progs).clone(),
            4 => self.r.pick(&self.scope).clone(),
            5 => {
                let n = self.r.usize(4);
                V::List((0..n).map(|_| V::Int(small_int(self.r))).collect()).render()
            }
            6 => {
                let n = 2 + self.r.usize(7);
                let strs = self.r.chance(1, 3);
                map_value(self.r, n, strs).render()
            }
            _ => self.r.pick(&["now()", "timestamp()", "now().getFullYear()", "string(now())"]).to_string(),
        }
    }

    /// one of 48 distinct regular expressions (written without backslashes and quotes)
    fn pattern(&mut self) -> String {
        const BASE: [&str; 8] = ["a.c", "^h", "l+", "[a-k]1", "z{2}", "o$", "(a)(b)", "[0-9]"];
        const SUF: [&str; 6] = ["", "?", "*", "|x", "|yy", ".*"];
        format!("{}{}", self.r.pick(&BASE), self.r.pick(&SUF))
    }

    fn subject(&mut self) -> String {
        match self.r.weighted(&[3, 2]) {
            0 => V::Str(self.r.pick(&["hello", "a b", "k1zz", "abc ab", "zz top 10", ""]).to_string()).render(),
            _ => self.r.pick(&VARS).to_string(),
        }
    }

    /// calls of built-in functions on small operands: any of them could grow a cache or other
    /// carried state (C15/C16 own what they compute; here only history-independence is at stake)
    fn builtin(&mut self) -> String {
        let s = self.subject();
        match self.r.usize(14) {
            0 => format!("{}.matches('{}')", s, self.pattern()),
            1 => format!("{}.matchCaptures('{}')", s, self.pattern()),
            2 => format!("{}.matchReplace('{}', 'Z')", s, self.pattern()),
            3 => format!("{}.matchReplaceOnce('{}', 'Z')", s, self.pattern()),
            4 => {
                // many patterns in one evaluation, the first one again at the end
                let n = 6 + self.r.usize(20);
                let mut ps: Vec<String> = vec![];
                while ps.len() < n {
                    let p = self.pattern();
                    if !ps.contains(&p) {
                        ps.push(p);
                    }
                }
                ps.push(ps[0].clone());
                let list = ps.iter().map(|p| format!("'{}'", p)).collect::<Vec<_>>().join(", ");
                let f = *self.r.pick(&["matches(p)", "matchReplace(p, '-')", "matchCaptures(p)"]);
                format!("[{}].map(p, {}.{})", list, s, f)
            }
            5 => format!("{}.contains('a')", s),
            6 => format!("{}.toUpper()", s),
            7 => format!("{}.split(' ')", s),
            8 => format!("{}.replace('a', 'bb')", s),
            9 => format!("sort([3, {}, 2])", small_int(self.r)),
            10 => format!("max({}, {})", small_int(self.r), small_int(self.r)),
            11 => format!("abs({})", V::Int(small_int(self.r)).render()),
            12 if self.r.chance(1, 2) => "timestamp(86400).getDayOfWeek()".to_string(),
            12 => {
                // a deciding / failing predicate over the keys of a map: an error today (these
                // macros range over lists), whatever it is it must not depend on the hash keys
                let m = "{'a': 1, 'b': 0, 'c': 2, 'd': 0, 'e': 5}";
                let k = *self.r.pick(&["all", "exists", "exists_one"]);
                format!("{}.{}(k, 10 / {}[k] > 3)", m, k, m)
            }
            _ => format!("{}.startsWithI('H')", s),
        }
    }

    fn range(&mut self) -> String {
        let w_prog = if self.progs.is_empty() { 0 } else { 2 };
        match self.r.weighted(&[3, 4, 4, w_prog]) {
            0 => {
                let n = self.r.usize(5);
                V::List((0..n).map(|_| V::Int(small_int(self.r))).collect()).render()
            }
            1 => {
                let n = 2 + self.r.usize(8);
                let strs = self.r.chance(1, 3);
                map_value(self.r, n, strs).render()
            }
            2 => self.r.pick(&VARS).to_string(),
            _ => self.r.pick(&self.progs).clone(),
        }
    }

    fn expr(&mut self, depth: u32) -> String {
        if depth == 0 {
            return self.atom();
        }
        let d = depth - 1;
        match self.r.weighted(&[3, 10, 2, 2, 2, 2, 2, 2, 2, 1, 2, 1, 2, 2]) {
            0 => self.atom(),
            1 => {
                // macro over a range
                let rg = self.range();
                let v = self.loop_var();
                let kind = self.r.usize(7);
                self.scope.push(v.clone());
                let body = self.expr(d);
                let s = match kind {
                    0 => format!("{}.map({}, {})", rg, v, body),
                    1 => format!("{}.filter({}, {})", rg, v, body),
                    2 => format!("{}.all({}, {})", rg, v, body),
                    3 => format!("{}.exists({}, {})", rg, v, body),
                    4 => format!("{}.exists_one({}, {})", rg, v, body),
                    5 => {
                        let b2 = self.expr(d);
                        format!("{}.map({}, {}, {})", rg, v, body, b2)
                    }
                    _ => format!("{}.map({}, {}).filter({}, {} != null)", rg, v, v, v, v),
                };
                self.scope.pop();
                s
            }
            2 => format!("({} + {})", self.expr(d), self.expr(d)),
            3 => {
                let op = *self.r.pick(&["==", "!=", "<", ">="]);
                format!("({} {} {})", self.expr(d), op, self.expr(d))
            }
            4 => {
                let f = *self.r.pick(&["size", "string", "type", "bool"]);
                format!("{}({})", f, self.expr(d))
            }
            5 => format!("[{}, {}]", self.expr(d), self.expr(d)),
            6 => format!("{{'k1': {}, 'b': {}, 'zz': 3}}", self.expr(d), self.expr(d)),
            7 => format!("({} ? {} : {})", self.expr(d), self.expr(d), self.expr(d)),
            8 => {
                let op = *self.r.pick(&["||", "&&"]);
                format!("({} {} {})", self.expr(d), op, self.expr(d))
            }
            9 => {
                let v = *self.r.pick(&VARS);
                let f = *self.r.pick(&["f", "g", "a", "k1"]);
                if self.r.chance(1, 2) {
                    format!("has({}.{})", v, f)
                } else {
                    format!("coalesce({}.{}, {}, {})", v, f, self.atom(), self.atom())
                }
            }
            10 => {
                let e = self.expr(d);
                let acc = if self.r.chance(1, 5) { self.r.pick(&VARS).to_string() } else { "acc".to_string() };
                format!("{}.reduce({}, e, {} + e, {})", self.range(), acc, acc, e)
            }
            11 => {
                // no quotes inside an f-string segment
                let mut a = self.atom();
                if a.contains('\'') {
                    a = self.r.pick(&VARS).to_string();
                }
                format!("f'<{{{}}}>'", a)
            }
            13 => {
                // two maps over the same keys compared member by member: some members equal,
                // some different, some failing (an unbound name, a division by zero)
                let n = 2 + self.r.usize(5);
                let off = self.r.usize(KEYS.len());
                let (mut l, mut rr) = (vec![], vec![]);
                for i in 0..n {
                    let k = KEYS[(off + i) % KEYS.len()];
                    let (a, b) = match self.r.weighted(&[4, 3, 2, 2]) {
                        0 => {
                            let v = small_int(self.r);
                            (V::Int(v).render(), V::Int(v).render())
                        }
                        1 => (V::Int(small_int(self.r)).render(), V::Int(small_int(self.r) + 200).render()),
                        2 => ("nobody_bound".to_string(), "nobody_bound".to_string()),
                        _ => {
                            let v = *self.r.pick(&VARS);
                            (format!("(1 / ({} - {}))", v, v), format!("(1 / ({} - {}))", v, v))
                        }
                    };
                    l.push(format!("'{}': {}", k, a));
                    rr.push(format!("'{}': {}", k, b));
                }
                let op = *self.r.pick(&["==", "!="]);
                format!("({{{}}} {} {{{}}})", l.join(", "), op, rr.join(", "))
            }
            _ => {
                let k = *self.r.pick(&["f", "a", "k1", "zz"]);
                if self.r.chance(1, 2) {
                    format!("({}).{}", self.atom(), k)
                } else {
                    format!("({})['{}']", self.atom(), k)
                }
            }
        }
    }
}

/// a text that differs from `src` only in white space: inside a quoted literal if there is
/// one with a blank (then it is a different program), otherwise between tokens (then it is
/// the same program written differently)
fn near_dup(src: &str, r: &mut Rng) -> String {
    let b: Vec<char> = src.chars().collect();
    let mut in_q = false;
    let mut spots = vec![];
    for (i, c) in b.iter().enumerate() {
        if *c == '\'' {
            in_q = !in_q;
        } else if in_q && *c == ' ' {
            spots.push(i);
        }
    }
    if !spots.is_empty() && r.chance(3, 4) {
        let at = *r.pick(&spots);
        let mut out: String = b[..at].iter().collect();
        // one blank more, or one less where there are two
        if at + 1 < b.len() && b[at + 1] == ' ' && r.chance(1, 2) {
            out.extend(b[at + 1..].iter());
        } else {
            out.push_str("  ");
            out.extend(b[at + 1..].iter());
        }
        return out;
    }
    // layout outside literals
    let mut out = String::new();
    let mut in_q = false;
    for c in b.iter() {
        if *c == '\'' {
            in_q = !in_q;
        }
        if !in_q && (*c == ',' || *c == '(') {
            out.push(*c);
            out.push_str(if r.chance(1, 2) { "  " } else { " " });
        } else {
            out.push(*c);
        }
    }
    out
}

fn gen_src(r: &mut Rng, progs: &[String], clock: bool) -> String {
    let depth = 1 + r.usize(3) as u32;
    let mut g = SrcGen { r, progs: progs.to_vec(), clock, scope: vec![] };
    g.expr(depth)
}

// ---------------------------------------------------------------------------------------------
// C11
// ---------------------------------------------------------------------------------------------

struct St {
    ctxs: Vec<(usize, Vec<String>)>,
    /// (id, owner thread)
    binds: Vec<(usize, usize)>,
    next_c: usize,
    next_b: usize,
}

fn gen11(seed: u64) -> WorldCase {
    let mut r = Rng::new(seed);
    let nclients = match r.weighted(&[3, 4, 3, 2, 1]) {
        0 => 1,
        1 => 2,
        2 => 3,
        3 => 4,
        _ => 5 + r.usize(12),
    };
    let clients: Vec<[u8; 16]> = (0..nclients).map(|_| r.bytes16()).collect();
    let clock = r.chance(1, 3);
    let mut ops: Vec<Op> = vec![];
    let mut st = St { ctxs: vec![], binds: vec![], next_c: 0, next_b: 0 };
    // every client gets a binding set, client 0 creates the first context
    ops.push(Op { t: 0, k: OpK::NewCtx { c: 0 } });
    st.ctxs.push((0, vec![]));
    st.next_c = 1;
    for t in 0..nclients.min(4) {
        ops.push(Op { t, k: OpK::NewB { b: st.next_b } });
        st.binds.push((st.next_b, t));
        st.next_b += 1;
    }
    let nops = 6 + r.usize(30);
    let mut last_mutation = false;
    let mut texts: Vec<String> = vec![];
    // (context, name) -> current text, so that patterns can pick variables a program reads
    let mut srcs: BTreeMap<(usize, String), String> = BTreeMap::new();
    while ops.len() < nops {
        let t = r.usize(nclients);
        let my_binds: Vec<usize> = st.binds.iter().filter(|(_, o)| *o == t).map(|(b, _)| *b).collect();
        // bias: a clone right after a mutation
        let w_clone = if last_mutation { 6 } else { 2 };
        let choice = r.weighted(&[6, 1, w_clone, 1, 6, w_clone, 12, if clock { 3 } else { 1 }, 1, 1, 2, 2, 1, 2]);
        last_mutation = false;
        match choice {
            0 | 1 => {
                // add or replace a program
                let ci = r.usize(st.ctxs.len());
                let (c, names) = &mut st.ctxs[ci];
                let name = r.pick(&PROGS).to_string();
                // references only go to lower-numbered programs: the reference graph stays
                // acyclic and at most 5 deep (cycles and depth are C12's ground)
                let idx = PROGS.iter().position(|p| *p == name).unwrap();
                let known: Vec<String> = PROGS[..idx].iter().map(|s| s.to_string()).collect();
                let refs: Vec<String> = if r.chance(2, 3) { known } else { vec![] };
                // sometimes a text that differs from an earlier one of this run only in
                // white space (it may only reference lower-numbered programs as well)
                let dup_from: Vec<&String> = texts.iter().filter(|t| super::idents(t).iter().all(|i| !PROGS.contains(&i.as_str()) || refs.contains(i))).collect();
                let src = if !dup_from.is_empty() && r.chance(1, 6) {
                    let t = (*r.pick(&dup_from)).clone();
                    near_dup(&t, &mut r)
                } else if idx <= 1 && r.chance(1, 3) {
                    // a program that is just a constant (a named constant other programs
                    // read; replaced later like any other program)
                    value(&mut r, 1).render()
                } else if !refs.is_empty() && r.chance(1, 5) {
                    // a reader of lower-numbered programs from inside call and macro arguments
                    let a = r.pick(&refs).clone();
                    let b2 = r.pick(&refs).clone();
                    match r.usize(4) {
                        0 => format!("[1, 2].map(v, [v, {}])", a),
                        1 => format!("string({}) + string({})", a, b2),
                        2 => format!("[{}].filter(v, v == {})", a, b2),
                        _ => format!("size([{}, {}])", a, b2),
                    }
                } else {
                    gen_src(&mut r, &refs, clock)
                };
                texts.push(src.clone());
                srcs.insert((*c, name.clone()), src.clone());
                if !names.contains(&name) {
                    names.push(name.clone());
                }
                let k = if choice == 1 { OpK::AddShared { c: *c, name, src } } else { OpK::Add { c: *c, name, src, must_read: false } };
                ops.push(Op { t, k });
                last_mutation = true;
            }
            2 => {
                if st.ctxs.len() < 4 {
                    let from = st.ctxs[r.usize(st.ctxs.len())].clone();
                    let to = st.next_c;
                    st.next_c += 1;
                    st.ctxs.push((to, from.1.clone()));
                    ops.push(Op { t, k: OpK::CloneCtx { from: from.0, to } });
                }
            }
            3 => {
                if st.ctxs.len() > 1 && r.chance(1, 2) {
                    let i = r.usize(st.ctxs.len());
                    let (c, _) = st.ctxs.remove(i);
                    ops.push(Op { t, k: OpK::DropCtx { c } });
                } else if st.ctxs.len() < 4 {
                    let c = st.next_c;
                    st.next_c += 1;
                    st.ctxs.push((c, vec![]));
                    ops.push(Op { t, k: OpK::NewCtx { c } });
                }
            }
            4 => {
                if let Some(b) = my_binds.get(r.usize(my_binds.len().max(1))) {
                    // the name universe overlaps with loop variables and program names
                    let name = match r.weighted(&[10, 1, 1]) {
                        0 => r.pick(&VARS).to_string(),
                        1 => r.pick(&["v", "k", "e", "acc"]).to_string(),
                        _ => r.pick(&PROGS).to_string(),
                    };
                    let val = value(&mut r, 2);
                    if r.chance(1, 5) && super::json_safe(&val) {
                        let mut vals = BTreeMap::new();
                        vals.insert(name, val);
                        if r.chance(1, 2) {
                            let v2 = value(&mut r, 1);
                            if super::json_safe(&v2) {
                                vals.insert(r.pick(&VARS).to_string(), v2);
                            }
                        }
                        ops.push(Op { t, k: OpK::BindJson { b: *b, vals } });
                    } else {
                        ops.push(Op { t, k: OpK::Bind { b: *b, name, val } });
                    }
                    last_mutation = true;
                }
            }
            5 => {
                if let Some(from) = my_binds.get(r.usize(my_binds.len().max(1))) {
                    if st.binds.len() < 8 {
                        let to = st.next_b;
                        st.next_b += 1;
                        st.binds.push((to, t));
                        ops.push(Op { t, k: OpK::CloneB { from: *from, to } });
                    }
                }
            }
            6 => {
                if let Some(b) = my_binds.get(r.usize(my_binds.len().max(1))) {
                    let (c, names) = &st.ctxs[r.usize(st.ctxs.len())];
                    if !names.is_empty() {
                        // now and then the name of a program this context does not hold: the
                        // exec fails as unbound and must leave nothing behind
                        let name = if r.chance(1, 12) { r.pick(&["ghost", "p4", "x0"]).to_string() } else { r.pick(names).clone() };
                        let times = match r.weighted(&[6, 3, 1]) {
                            0 => 1,
                            1 => 2,
                            _ => 3,
                        };
                        ops.push(Op { t, k: OpK::Exec { c: *c, name, b: *b, times, keys: r.bytes16(), minimal: r.chance(1, 2) } });
                    }
                }
            }
            7 => {
                let base = instant(&mut r);
                ops.push(Op { t, k: OpK::Clock { ns: base } });
            }
            8 => {
                if st.binds.len() < 8 {
                    ops.push(Op { t, k: OpK::NewB { b: st.next_b } });
                    st.binds.push((st.next_b, t));
                    st.next_b += 1;
                }
            }
            9 => {
                if let Some(b) = my_binds.get(r.usize(my_binds.len().max(1))) {
                    // a bound function; the name never collides with a built-in (C09 leaves
                    // rebound built-ins out of scope)
                    // (sometimes a built-in's name: whether the caller's function or the
                    // built-in is used must not depend on what happened before)
                    let name = r.pick(&["myf", "g1", "myf", "g1", "size", "toUpper", "contains"]).to_string();
                    ops.push(Op { t, k: OpK::BindFunc { b: *b, name, ret: value(&mut r, 1) } });
                }
            }
            10 => {
                // sibling binding sets: clone, then the same number of rebinds of the same
                // names with different values on each side, then the same program of the same
                // context executed with one and then the other
                if let Some(b) = my_binds.get(r.usize(my_binds.len().max(1))) {
                    if st.binds.len() < 8 {
                        let to = st.next_b;
                        st.next_b += 1;
                        st.binds.push((to, t));
                        ops.push(Op { t, k: OpK::CloneB { from: *b, to } });
                        let (c, names) = &st.ctxs[r.usize(st.ctxs.len())];
                        let exec_name = if names.is_empty() { None } else { Some(r.pick(names).clone()) };
                        // the variables the executed program can read, directly or through
                        // the programs it references
                        let mut read: Vec<String> = vec![];
                        if let Some(n) = &exec_name {
                            let mut todo = vec![n.clone()];
                            let mut seen: Vec<String> = vec![];
                            while let Some(p) = todo.pop() {
                                if seen.contains(&p) {
                                    continue;
                                }
                                seen.push(p.clone());
                                if let Some(s) = srcs.get(&(*c, p)) {
                                    for i in super::idents(s) {
                                        if VARS.contains(&i.as_str()) && !read.contains(&i) {
                                            read.push(i.clone());
                                        }
                                        if PROGS.contains(&i.as_str()) {
                                            todo.push(i);
                                        }
                                    }
                                }
                            }
                        }
                        let rounds = r.usize(3);
                        for q in 0..rounds {
                            let name = if !read.is_empty() && r.chance(3, 4) { r.pick(&read).clone() } else { r.pick(&VARS).to_string() };
                            // different values on the two sides (ints apart, or any value)
                            let (v1, v2) = if r.chance(1, 2) { (V::Int(1000 + q as i64), V::Int(2000 + q as i64)) } else { (value(&mut r, 2), value(&mut r, 2)) };
                            ops.push(Op { t, k: OpK::Bind { b: *b, name: name.clone(), val: v1 } });
                            ops.push(Op { t, k: OpK::Bind { b: to, name, val: v2 } });
                        }
                        if let Some(name) = exec_name {
                            for bb in [*b, to, *b] {
                                ops.push(Op { t, k: OpK::Exec { c: *c, name: name.clone(), b: bb, times: 1, keys: r.bytes16(), minimal: r.chance(1, 2) } });
                            }
                        }
                    }
                }
            }
            11 => {
                // sibling contexts: clone, replace the same program on each side with another
                // text, execute the same name (and a program referring to it) on both
                if st.ctxs.len() < 4 {
                    if let Some(b) = my_binds.get(r.usize(my_binds.len().max(1))) {
                        let fi = r.usize(st.ctxs.len());
                        let (from, mut names) = st.ctxs[fi].clone();
                        let to = st.next_c;
                        st.next_c += 1;
                        ops.push(Op { t, k: OpK::CloneCtx { from, to } });
                        let idx = r.usize(3);
                        let name = PROGS[idx].to_string();
                        let known: Vec<String> = PROGS[..idx].iter().map(|s| s.to_string()).collect();
                        for c in [from, to] {
                            let src = gen_src(&mut r, &known, clock);
                            ops.push(Op { t, k: OpK::Add { c, name: name.clone(), src, must_read: false } });
                        }
                        if !names.contains(&name) {
                            names.push(name.clone());
                            st.ctxs[fi].1.push(name.clone());
                        }
                        st.ctxs.push((to, names.clone()));
                        let exec_name = r.pick(&names).clone();
                        for c in [from, to, from] {
                            ops.push(Op { t, k: OpK::Exec { c, name: exec_name.clone(), b: *b, times: 1, keys: r.bytes16(), minimal: r.chance(1, 2) } });
                        }
                    }
                }
            }
            13 => {
                // a compile that fails (on a context under a name nothing uses, or without a
                // context): it must leave nothing behind on this thread or in this context
                let ci = r.usize(st.ctxs.len());
                let c = st.ctxs[ci].0;
                let src = r.pick(&["1 +", "(", "[1, 2", "x0 ? 1", "'abc", "1 2", "[1].map(v v)", "{'a': }"]).to_string();
                // ... or under the name of a stored program, which must survive the failed add
                let (_, names) = &st.ctxs[ci];
                let over = if !names.is_empty() && r.chance(1, 3) { Some(r.pick(names).clone()) } else { None };
                ops.push(Op { t, k: OpK::AddBad { c, src, free: over.is_none() && r.chance(1, 2), over } });
            }
            _ => {
                // a program that runs into the depth limit (one reference per program, so the
                // evaluation is linear), executed up to 40 times: what happens on the failure
                // path must not leak into later executions on this thread or context
                if let Some(b) = my_binds.get(r.usize(my_binds.len().max(1))) {
                    let ci = r.usize(st.ctxs.len());
                    let (c, names) = &mut st.ctxs[ci];
                    let src = *r.pick(&["cyc + 1", "[1].map(v, cyc)[0]", "'a' + coalesce(cyc, 'x')", "f'{cyc}'", "[cyc][0]", "(x0 == x0) ? cyc : 0"]);
                    ops.push(Op { t, k: OpK::Add { c: *c, name: "cyc".into(), src: src.into(), must_read: false } });
                    let times = *r.pick(&[1u8, 2, 3, 17, 33, 40]);
                    ops.push(Op { t, k: OpK::Exec { c: *c, name: "cyc".into(), b: *b, times, keys: r.bytes16(), minimal: true } });
                    if !names.is_empty() {
                        let name = r.pick(names).clone();
                        ops.push(Op { t, k: OpK::Exec { c: *c, name, b: *b, times: 1, keys: r.bytes16(), minimal: r.chance(1, 2) } });
                    }
                }
            }
        }
    }
    // always end with an exec of every program of a surviving context, on a client that owns bindings
    let (c, names) = st.ctxs[r.usize(st.ctxs.len())].clone();
    for name in names {
        let (b, t) = st.binds[r.usize(st.binds.len())];
        ops.push(Op { t, k: OpK::Exec { c, name, b, times: 2, keys: r.bytes16(), minimal: r.chance(1, 2) } });
    }
    WorldCase { world: "C11".into(), clients, start_ns: instant(&mut r), label: "history".into(), ops }
}

/// C11, scripted history families: the patterns that carried state in the seeded changes,
/// each in a few variants; decided by the same oracles as the random histories (fresh twin,
/// repetition, frozen model).
pub fn c11_enumerated() -> u64 {
    (C11_FAMILIES * C11_VARIANTS) as u64
}
const C11_FAMILIES: usize = 10;
const C11_VARIANTS: usize = 12;

fn gen11_enumerated(k: u64, seed: u64) -> WorldCase {
    let mut r = Rng::new(seed);
    let fam = (k as usize) / C11_VARIANTS;
    let var = (k as usize) % C11_VARIANTS;
    let clients = vec![r.bytes16(), r.bytes16()];
    let mut ops: Vec<Op> = vec![Op { t: 0, k: OpK::NewCtx { c: 0 } }, Op { t: 0, k: OpK::NewB { b: 0 } }];
    let add = |ops: &mut Vec<Op>, c: usize, name: &str, src: &str| ops.push(Op { t: 0, k: OpK::Add { c, name: name.to_string(), src: src.to_string(), must_read: false } });
    let bind = |ops: &mut Vec<Op>, b: usize, name: &str, val: V| ops.push(Op { t: 0, k: OpK::Bind { b, name: name.to_string(), val } });
    let exec = |ops: &mut Vec<Op>, r: &mut Rng, c: usize, name: &str, b: usize, times: u8| ops.push(Op { t: 0, k: OpK::Exec { c, name: name.to_string(), b, times, keys: r.bytes16(), minimal: false } });
    // readers of another program, by position of the reference
    let readers = ["[p0, 1]", "p0 + p0", "[1, 2].map(v, [v, p0])", "string(p0) + '!'", "[p0].filter(v, v == p0)", "coalesce(p0, 'none')"];
    let reader = readers[var % readers.len()];
    let label;
    match fam {
        0 => {
            // sibling binding sets that diverge in the same number of steps
            label = "sibling-bindings";
            add(&mut ops, 0, "p0", ["x0", "[x0, x1]", "x0 + 1"][var % 3]);
            add(&mut ops, 0, "p1", reader);
            if var >= 6 {
                add(&mut ops, 0, "p2", "[p1, p0]");
            }
            bind(&mut ops, 0, "x0", V::Int(1));
            bind(&mut ops, 0, "x1", V::s("one"));
            ops.push(Op { t: 0, k: OpK::CloneB { from: 0, to: 1 } });
            for q in 0..(1 + var % 3) {
                bind(&mut ops, 0, "x0", V::Int(10 + q as i64));
                bind(&mut ops, 1, "x0", V::Int(20 + q as i64));
            }
            let top = if var >= 6 { "p2" } else { "p1" };
            for b in [0usize, 1, 0, 1] {
                exec(&mut ops, &mut r, 0, top, b, 1);
            }
        }
        1 => {
            // sibling contexts that diverge in the same number of steps
            label = "sibling-contexts";
            add(&mut ops, 0, "p0", "'first'");
            add(&mut ops, 0, "p1", reader);
            bind(&mut ops, 0, "x0", V::Int(1));
            exec(&mut ops, &mut r, 0, "p1", 0, 1);
            ops.push(Op { t: 0, k: OpK::CloneCtx { from: 0, to: 1 } });
            for q in 0..(1 + var % 3) {
                add(&mut ops, 0, "p0", &format!("'left{}'", q));
                add(&mut ops, 1, "p0", &format!("'right{}'", q));
            }
            for c in [0usize, 1, 0, 1] {
                exec(&mut ops, &mut r, c, "p1", 0, 1);
            }
        }
        2 => {
            // a constant program, a reader added after it, the constant replaced or shadowed
            label = "constant-program-replaced";
            add(&mut ops, 0, "p0", ["3", "'rate'", "[1, 2]"][var % 3]);
            add(&mut ops, 0, "p1", reader);
            bind(&mut ops, 0, "x0", V::Int(1));
            exec(&mut ops, &mut r, 0, "p1", 0, 1);
            if var % 2 == 0 {
                add(&mut ops, 0, "p0", ["4", "'other'", "[7]"][var % 3]);
            } else {
                bind(&mut ops, 0, "p0", V::s("shadowing parameter"));
            }
            exec(&mut ops, &mut r, 0, "p1", 0, 2);
            // the same texts added in the other order in a second context
            ops.push(Op { t: 0, k: OpK::NewCtx { c: 1 } });
            add(&mut ops, 1, "p1", reader);
            add(&mut ops, 1, "p0", "5");
            exec(&mut ops, &mut r, 1, "p1", 0, 1);
        }
        3 => {
            // failures first: a failed compile, a missing program, an exec into the depth limit
            label = "failures-then-success";
            add(&mut ops, 0, "p0", "x0");
            add(&mut ops, 0, "p1", reader);
            add(&mut ops, 0, "cyc", ["cyc + 1", "[1].map(v, cyc)[0]", "coalesce(cyc, 1)", "f'{cyc}'"][var % 4]);
            bind(&mut ops, 0, "x0", V::Int(5));
            ops.push(Op { t: 0, k: OpK::AddBad { c: 0, src: "1 +".into(), free: var % 2 == 0, over: if var % 3 == 0 { Some("p0".into()) } else { None } } });
            exec(&mut ops, &mut r, 0, "ghost", 0, 1);
            exec(&mut ops, &mut r, 0, "cyc", 0, [1u8, 2, 17, 33][var % 4]);
            exec(&mut ops, &mut r, 0, "p1", 0, 2);
            exec(&mut ops, &mut r, 0, "cyc", 0, 1);
            exec(&mut ops, &mut r, 0, "p0", 0, 1);
        }
        4 => {
            // texts that differ only in white space inside a literal / between tokens
            label = "near-duplicate-texts";
            let a = ["'a b' + x0", "['x  y', x0]", "x0 == 'p q'"][var % 3];
            let b2 = a.replace("a b", "a  b").replace("x  y", "x y").replace("p q", "p  q");
            let c2 = a.replace(", ", ",   ").replace(" + ", "  +  ");
            add(&mut ops, 0, "p0", a);
            bind(&mut ops, 0, "x0", V::s("p q"));
            exec(&mut ops, &mut r, 0, "p0", 0, 1);
            add(&mut ops, 0, "p1", &b2);
            add(&mut ops, 0, "p2", &c2);
            for n in ["p1", "p2", "p0"] {
                exec(&mut ops, &mut r, 0, n, 0, 1);
            }
            ops.push(Op { t: 0, k: OpK::NewCtx { c: 1 } });
            add(&mut ops, 1, "p0", &b2);
            exec(&mut ops, &mut r, 1, "p0", 0, 1);
        }
        5 => {
            // many distinct regular expressions on one thread, then the first ones again
            label = "many-patterns";
            bind(&mut ops, 0, "x0", V::s("hello k1zz 10"));
            let n = 17 + var * 2;
            // distinct patterns, each with its own visible effect on the subject: every
            // substring of 1..3 letters/digits of it
            let subject = "hello k1zz 10";
            let mut pats: Vec<String> = vec!["l+".to_string(), "[0-9]".to_string()];
            let sb: Vec<char> = subject.chars().collect();
            for len in 1..=3usize {
                for s in 0..sb.len().saturating_sub(len - 1) {
                    let t: String = sb[s..s + len].iter().collect();
                    if t.chars().all(|c| c.is_ascii_alphanumeric()) && !pats.contains(&t) {
                        pats.push(t);
                    }
                }
            }
            pats.truncate(n.min(pats.len()));
            add(&mut ops, 0, "p0", &format!("x0.matchReplace('{}', '-')", pats[0]));
            add(&mut ops, 0, "p1", &format!("x0.matchReplace('{}', '-')", pats[1]));
            exec(&mut ops, &mut r, 0, "p0", 0, 1);
            exec(&mut ops, &mut r, 0, "p1", 0, 1);
            let list = pats.iter().map(|p| format!("'{}'", p)).collect::<Vec<_>>().join(", ");
            add(&mut ops, 0, "p2", &format!("[{}].map(p, x0.{})", list, ["matches(p)", "matchReplace(p, '+')", "matchCaptures(p)"][var % 3]));
            exec(&mut ops, &mut r, 0, "p2", 0, 1);
            exec(&mut ops, &mut r, 0, "p0", 0, 1);
            exec(&mut ops, &mut r, 0, "p1", 0, 1);
        }
        6 => {
            // a macro that filters out elements, then the loop name read by a later program
            label = "loop-name-after-macro";
            let mac = ["[1, 2, 3].map(v, v > 1, v)", "[1, 2, 3].filter(v, v > 1)", "[1, 2, 3].map(v, v > 5, v)", "[1, 0].all(v, 10 / v > 1) || true"][var % 4];
            add(&mut ops, 0, "p0", &mac.replace("[1, 2, 3]", if var >= 6 { "x1" } else { "[1, 2, 3]" }));
            add(&mut ops, 0, "p1", "has(v) ? v : 'free'");
            add(&mut ops, 0, "p2", "[p0, has(v)]");
            bind(&mut ops, 0, "x1", V::List(vec![V::Int(1), V::Int(2), V::Int(3)]));
            for n in ["p0", "p1", "p2", "p1"] {
                exec(&mut ops, &mut r, 0, n, 0, 1);
            }
            ops.push(Op { t: 0, k: OpK::CloneB { from: 0, to: 1 } });
            exec(&mut ops, &mut r, 0, "p1", 1, 1);
        }
        8 => {
            // the caller binds a function under a built-in's name: whatever that does to a
            // call with constant arguments, it does not depend on when the program was added
            label = "rebound-builtin";
            let (fname, text) = [("toUpper", "'abc'.toUpper()"), ("size", "size('abc')"), ("contains", "'abc'.contains('b')"), ("max", "max(1, 2)")][var % 4];
            add(&mut ops, 0, "p0", text);
            add(&mut ops, 0, "p2", &format!("[{}, x0]", text));
            bind(&mut ops, 0, "x0", V::Int(1));
            exec(&mut ops, &mut r, 0, "p0", 0, 1);
            ops.push(Op { t: 0, k: OpK::NewB { b: 1 } });
            bind(&mut ops, 1, "x0", V::Int(2));
            ops.push(Op { t: 0, k: OpK::BindFunc { b: 1, name: fname.to_string(), ret: V::s("caller's function") } });
            exec(&mut ops, &mut r, 0, "p0", 1, 1);
            add(&mut ops, 0, "p1", text);
            for (n, b) in [("p1", 1usize), ("p0", 1), ("p2", 1), ("p1", 0), ("p0", 0)] {
                exec(&mut ops, &mut r, 0, n, b, 1);
            }
        }
        9 => {
            // one built-in called with a run-time argument that changes between executions on
            // one thread (whatever the function remembers of an earlier call must not matter:
            // an affine conversion answered from a remembered factor, a memo keyed too coarsely)
            label = "builtin-argument-changes";
            let src = [
                "uomConvert(x0, 'celsius', 'fahrenheit')",
                "uomConvert(x0, 'fahrenheit', 'kelvin')",
                "uomConvert(x0, 'kg', 'lb')",
                "[x0, 0, 37].map(v, uomConvert(v, 'celsius', 'fahrenheit'))",
                "[pow(x0, 2), abs(x0), sqrt(abs(x0)), floor(x0 / 3)]",
                "[string(x0), f'{x0}', type(x0)]",
            ][var % 6];
            add(&mut ops, 0, "p0", src);
            add(&mut ops, 0, "p1", "[p0, x0]");
            for v in [100i64, 0, 37, -40, 100] {
                bind(&mut ops, 0, "x0", V::Int(v + (var / 6) as i64));
                exec(&mut ops, &mut r, 0, if var % 4 < 2 { "p0" } else { "p1" }, 0, 1 + (var % 2) as u8);
            }
        }
        _ => {
            // a Program compiled once and placed in two contexts, executed with different
            // bindings, replaced in one of them
            label = "shared-program";
            let src = ["f'hello {x0}'", "[x0, 1]", "x0 + x0", "has(x0) ? x0 : 'none'"][var % 4];
            ops.push(Op { t: 0, k: OpK::AddShared { c: 0, name: "p0".into(), src: src.into() } });
            ops.push(Op { t: 0, k: OpK::CloneCtx { from: 0, to: 1 } });
            ops.push(Op { t: 0, k: OpK::AddShared { c: 1, name: "p1".into(), src: src.into() } });
            ops.push(Op { t: 0, k: OpK::NewB { b: 1 } });
            bind(&mut ops, 0, "x0", V::s("first"));
            bind(&mut ops, 1, "x0", V::s("second"));
            for (c, n, b) in [(0usize, "p0", 0usize), (1, "p0", 1), (1, "p1", 0), (0, "p0", 1)] {
                exec(&mut ops, &mut r, c, n, b, 1);
            }
            add(&mut ops, 1, "p0", "'replaced'");
            exec(&mut ops, &mut r, 0, "p0", 1, 1);
            exec(&mut ops, &mut r, 1, "p0", 1, 1);
        }
    }
    // half of the variants run the whole history on the second client
    if var % 2 == 1 {
        for o in ops.iter_mut() {
            o.t = 1;
        }
    }
    WorldCase { world: "C11".into(), clients, start_ns: instant(&mut r), label: label.into(), ops }
}

/// C11, executions in flight at once: m clients, each with its own clone of one context and
/// its own binding set (x0 unique per client, so a result names the bindings it was computed
/// from), run programs that call the yield function `yf` at top level, in macro bodies, in
/// call arguments, behind references to other stored programs (so that a client is parked
/// several frames deep); the scheduler interleaves them at those calls.
fn gen11_interleave(seed: u64) -> WorldCase {
    let mut r = Rng::new(seed);
    let m = match r.weighted(&[5, 3, 3]) {
        0 => 2 + r.usize(3),
        1 => 5 + r.usize(4),
        _ => 9 + r.usize(8),
    };
    let clients: Vec<[u8; 16]> = (0..m).map(|_| r.bytes16()).collect();
    let uniq = r.range(100, 999);
    let mut ops: Vec<Op> = vec![Op { t: 0, k: OpK::NewCtx { c: 0 } }];
    let mut names: Vec<String> = vec![];
    let add = |ops: &mut Vec<Op>, names: &mut Vec<String>, name: &str, src: String| {
        ops.push(Op { t: 0, k: OpK::Add { c: 0, name: name.to_string(), src, must_read: false } });
        if !names.iter().any(|n| n == name) {
            names.push(name.to_string());
        }
    };
    // a reference chain k0 <- k1 <- .. so that a client parks up to `d` frames deep
    let deep = r.chance(1, 3);
    let d = if deep { 8 + r.usize(7) } else { 1 + r.usize(5) };
    for i in 0..d {
        let src = if i == 0 {
            "[x0, yf(x0)]".to_string()
        } else {
            match r.usize(4) {
                0 => format!("[k{}[0], yf(k{}[1])]", i - 1, i - 1),
                1 => format!("[1].map(v, k{})[0]", i - 1),
                2 => format!("[yf(x0), k{}[1]]", i - 1),
                _ => format!("k{}", i - 1),
            }
        };
        add(&mut ops, &mut names, &format!("k{}", i), src);
    }
    let top = format!("k{}", d - 1);
    let templates: [&str; 14] = [
        "[x0, yf(x0), x0]",
        "yf(x0) == x0",
        "[1, 2, 3].map(v, [yf(v), x0])",
        "x1.map(v, yf(v))",
        "x1.filter(v, yf(v) != x0)",
        "[yf(1), TOP, yf(2), x0]",
        "coalesce(yf(null), x0)",
        "has(x2.f) ? yf(x2.f) : yf(x0)",
        "f'{yf(x0)}-{x0}'",
        "x1.reduce(acc, e, acc + yf(e), 0)",
        "x1.all(v, yf(v) >= 0) && yf(true)",
        "{'a': yf(x0), 'b': x0}",
        "[TOP, TOP]",
        "x1.map(v, x1.map(w, yf(v) + w))",
    ];
    let np = 2 + r.usize(4);
    for i in 0..np {
        let src = if r.chance(1, 4) {
            // a generated expression with yield calls sprinkled in
            let refs: Vec<String> = names.clone();
            let e = gen_src(&mut r, &refs, false);
            format!("[yf(x0), {}, yf(1)]", e)
        } else {
            r.pick(&templates).replace("TOP", &top)
        };
        add(&mut ops, &mut names, &format!("y{}", i), src);
    }
    // per client: a clone of the context, a binding set with its own x0
    for j in 0..m {
        let by = if r.chance(1, 2) { j } else { 0 };
        ops.push(Op { t: by, k: OpK::CloneCtx { from: 0, to: 10 + j } });
        ops.push(Op { t: j, k: OpK::NewB { b: j } });
        ops.push(Op { t: j, k: OpK::Bind { b: j, name: "x0".into(), val: V::Str(format!("client{}#{}", j, uniq)) } });
        let n = 1 + r.usize(4);
        ops.push(Op { t: j, k: OpK::Bind { b: j, name: "x1".into(), val: V::List((0..n).map(|q| V::Int(j as i64 * 10 + q as i64)).collect()) } });
        if r.chance(1, 2) {
            let mut mm = BTreeMap::new();
            mm.insert("f".to_string(), V::Int(j as i64));
            ops.push(Op { t: j, k: OpK::Bind { b: j, name: "x2".into(), val: V::Map(mm) } });
        }
        ops.push(Op { t: j, k: OpK::BindFunc { b: j, name: "yf".into(), ret: V::Other("yield".into()) } });
    }
    let rounds = 1 + r.usize(3);
    for _ in 0..rounds {
        // sometimes a sequential exec or a mutation between two rounds
        if r.chance(1, 3) {
            let j = r.usize(m);
            ops.push(Op { t: j, k: OpK::Exec { c: 10 + j, name: r.pick(&names).clone(), b: j, times: 1, keys: r.bytes16(), minimal: r.chance(1, 2) } });
        }
        if r.chance(1, 4) {
            let j = r.usize(m);
            ops.push(Op { t: j, k: OpK::Bind { b: j, name: "x0".into(), val: V::Str(format!("client{}#{}r", j, uniq)) } });
        }
        let mut order: Vec<usize> = (0..m).collect();
        for i in (1..order.len()).rev() {
            order.swap(i, r.usize(i + 1));
        }
        let take = if r.chance(2, 3) { m } else { 2 + r.usize(m - 1) };
        // deep runs often park every client at the bottom of the reference chain
        let same_prog = if deep && r.chance(1, 2) { Some(top.clone()) } else if r.chance(1, 3) { Some(r.pick(&names).clone()) } else { None };
        let mut parts: Vec<IPart> = order[..take.min(m)]
            .iter()
            .map(|j| IPart { t: *j, c: 10 + *j, name: same_prog.clone().unwrap_or_else(|| r.pick(&names).clone()), b: *j })
            .collect();
        // same-thread re-entrancy: a part whose context belongs to client j is run by another
        // client, nested inside that client's own parked exec (with that client's bindings)
        if r.chance(1, 2) && parts.len() >= 2 {
            let n = 1 + r.usize(parts.len() / 2);
            for _ in 0..n {
                let a = r.usize(parts.len());
                let b = r.usize(parts.len());
                if a != b {
                    let host = parts[b].t;
                    parts[a].t = host;
                    parts[a].b = host;
                }
            }
        }
        let sched: Vec<u8> = match r.weighted(&[3, 4, 2, 2]) {
            0 => vec![],
            1 => (0..r.usize(64)).map(|_| r.below(256) as u8).collect(),
            2 => vec![255; 8 + r.usize(64)],
            _ => (0..r.usize(48)).map(|_| if r.chance(1, 2) { 0 } else { r.below(256) as u8 }).collect(),
        };
        ops.push(Op { t: 0, k: OpK::Interleave { parts, sched, keys: r.bytes16() } });
    }
    WorldCase { world: "C11".into(), clients, start_ns: instant(&mut r), label: "interleave".into(), ops }
}

// ---------------------------------------------------------------------------------------------
// C09 (time clause)
// ---------------------------------------------------------------------------------------------

/// (text, every evaluation reads the clock)
const CLOCK_TEXTS: [(&str, bool); 64] = [
    ("now()", true),
    ("timestamp()", true),
    ("now() - timestamp(0)", true),
    ("timestamp() - timestamp(0)", true),
    ("now() + duration('1h')", true),
    ("now().getFullYear()", true),
    ("timestamp().getFullYear()", true),
    ("now().getSeconds()", true),
    ("now().getMilliseconds()", true),
    ("string(now())", true),
    ("int(now())", true),
    ("int(timestamp())", true),
    ("[now()]", true),
    ("[1, 2].map(v, now())", true),
    ("[1, 2].map(v, timestamp())", true),
    ("[now()].map(v, v)", true),
    ("[1].all(v, now() > timestamp(0))", true),
    ("[1, 2, 3].filter(v, now() == now())", true),
    ("{'t': now()}", true),
    ("f'{now()}'", true),
    ("f'at {timestamp()}!'", true),
    ("now() > timestamp(0)", true),
    ("x0 || now() > timestamp(0)", false),
    ("x0 && now() > timestamp(4102444800)", false),
    ("x0 ? now() : timestamp(0)", false),
    ("x0 ? timestamp(0) : timestamp()", false),
    ("coalesce(x1, now())", false),
    ("size([now(), now()])", true),
    ("type(now())", true),
    ("[1, 2, 3].reduce(acc, e, acc + int(now()) * 0 + e, 0)", true),
    // the constructor reached through a computed callee
    ("[timestamp][0]()", true),
    ("[duration, timestamp][1]()", true),
    ("type(timestamp(0))()", true),
    // the call several argument levels below calls the folder could evaluate
    ("timestamp(timestamp(now()))", true),
    ("timestamp(string(timestamp(timestamp())))", true),
    ("max(timestamp(0), min(now(), timestamp(4102444800)))", true),
    ("int(string(int(now())))", true),
    ("size([[now()], [timestamp()]])", true),
    ("[1].map(v, timestamp(now()))[0]", true),
    ("[1].map(v, v > 0, timestamp())", true),
    ("[1, 2].reduce(acc, v, timestamp(), timestamp(0))", true),
    ("[1, 2].reduce(acc, v, acc, now())", true),
    ("[[1]].map(v, v.map(w, now()))", true),
    ("{'a': [1].map(v, {'t': timestamp()})}", true),
    // a null argument selects the clock-reading constructor as well
    ("timestamp(null)", true),
    ("[timestamp(null), 1]", true),
    ("coalesce(x1, timestamp(null))", false),
    // now() called as a method of a constant receiver (every function may be called as a method)
    ("size(['a'.now(), 1])", true),
    ("[1, 2].map(v, [v.now()])", true),
    ("{'t': ['a'.now()]}", true),
    // a null argument that is not a literal null: a loop variable, a match result
    ("[null].map(v, timestamp(v))", true),
    ("[5, null].map(v, timestamp(v))[1]", true),
    ("timestamp(match 0 { case _: null })", true),
    // method-style calls on constant null / bool receivers
    ("[null.now()]", true),
    ("size([true.now(), 1])", true),
    ("{'a': null}.a.now()", true),
    ("[(1 == 1).now()]", true),
    // degenerate constant arguments of the constructor: failures on the pinned tree; whatever they
    // mean, a constant call of timestamp must not carry the compile instant into the program
    // (twin compiled at the exec instant, bytecode compared across compile instants)
    ("timestamp('')", false),
    ("timestamp(' ')", false),
    ("[timestamp(''), 1]", false),
    ("timestamp('now')", false),
    ("timestamp([])", false),
    ("timestamp(false)", false),
    ("x0 ? timestamp(' ') : timestamp('')", false),
];

/// wrappers the constant folder could evaluate if their argument were constant
const FOLDABLE_WRAPS: [&str; 10] = [
    "timestamp({})",
    "string({})",
    "type({})",
    "[{}][0]",
    "max(timestamp(0), {})",
    "min({}, timestamp(4102444800))",
    "[1].map(v, {})[0]",
    "coalesce(null, {})",
    "(true ? {} : timestamp(0))",
    "[0, 1].reduce(acc, v, {}, timestamp(0))",
];

const BOUNDARIES: [i64; 10] = [
    0,
    1,
    999_999_999,
    1_000_000_000,
    2_147_483_647,
    2_147_483_648,
    1_483_228_799, // 2016-12-31T23:59:59 (leap second day)
    951_782_400,   // 2000-02-29
    4_102_444_800, // 2100-01-01
    9_223_372_035, // 2262-04-11, the last second chrono gives in nanoseconds
];

fn clock_move(r: &mut Rng, now: i64) -> i64 {
    let now = now as i128;
    let t: i128 = match r.weighted(&[2, 3, 3, 3, 3, 2, 3]) {
        0 => now,
        1 => now + 1,
        2 => now + (r.range(1, 100_000) as i128) * 1_000_000_000 + r.range(0, 999_999_999) as i128,
        3 => now + (r.range(1, 400) as i128) * 86_400_000_000_000,
        4 => now + (r.range(1, 60) as i128) * 31_556_952_000_000_000,
        5 => now - (r.range(1, 5_000) as i128) * 86_400_000_000_000 - r.range(0, 999_999_999) as i128,
        _ => (*r.pick(&BOUNDARIES) as i128) * 1_000_000_000 + if r.chance(1, 2) { 0 } else { r.range(0, 999_999_999) as i128 },
    };
    // chrono represents nanosecond timestamps up to 2262-04-11
    t.clamp(0, 9_223_372_035_000_000_000) as i64
}

pub fn c09_enumerated() -> u64 {
    (CLOCK_TEXTS.len() * 4) as u64
}

/// every clock text x {plain, behind a stored-program reference, in a cloned context, shared Program}
fn gen09_enumerated(k: u64, seed: u64) -> WorldCase {
    let mut r = Rng::new(seed);
    let (text, must) = CLOCK_TEXTS[(k as usize) % CLOCK_TEXTS.len()];
    let form = (k as usize) / CLOCK_TEXTS.len();
    let t_c = instant(&mut r);
    let mut ops = vec![
        Op { t: 0, k: OpK::Clock { ns: t_c } },
        Op { t: 0, k: OpK::NewCtx { c: 0 } },
        Op { t: 0, k: OpK::NewB { b: 0 } },
        Op { t: 0, k: OpK::Bind { b: 0, name: "x0".into(), val: V::Bool(r.chance(1, 2)) } },
    ];
    let mut c = 0;
    let mut name = "p0".to_string();
    match form {
        0 => ops.push(Op { t: 0, k: OpK::Add { c: 0, name: "p0".into(), src: text.into(), must_read: must } }),
        1 => {
            ops.push(Op { t: 0, k: OpK::Add { c: 0, name: "p0".into(), src: text.into(), must_read: must } });
            ops.push(Op { t: 0, k: OpK::Add { c: 0, name: "p1".into(), src: "[p0].map(v, v)[0]".into(), must_read: false } });
            name = "p1".into();
        }
        2 => {
            ops.push(Op { t: 0, k: OpK::Add { c: 0, name: "p0".into(), src: text.into(), must_read: must } });
            ops.push(Op { t: 0, k: OpK::CloneCtx { from: 0, to: 1 } });
            c = 1;
        }
        _ => ops.push(Op { t: 0, k: OpK::AddShared { c: 0, name: "p0".into(), src: text.into() } }),
    }
    let mut now = t_c;
    for _ in 0..3 {
        now = clock_move(&mut r, now);
        ops.push(Op { t: 0, k: OpK::Clock { ns: now } });
        ops.push(Op { t: 0, k: OpK::Exec { c, name: name.clone(), b: 0, times: 1 + r.usize(2) as u8, keys: r.bytes16(), minimal: false } });
    }
    WorldCase { world: "C09".into(), clients: vec![r.bytes16()], start_ns: t_c, label: "clock".into(), ops }
}

fn gen09(seed: u64) -> WorldCase {
    let mut r = Rng::new(seed);
    let nclients = 1 + r.usize(4);
    let clients: Vec<[u8; 16]> = (0..nclients).map(|_| r.bytes16()).collect();
    let t_c = instant(&mut r);
    let mut now = t_c;
    let mut ops = vec![Op { t: 0, k: OpK::NewCtx { c: 0 } }];
    for t in 0..nclients {
        ops.push(Op { t, k: OpK::NewB { b: t } });
        if r.chance(3, 4) {
            ops.push(Op { t, k: OpK::Bind { b: t, name: "x0".into(), val: V::Bool(r.chance(1, 2)) } });
        }
        if r.chance(1, 3) {
            ops.push(Op { t, k: OpK::Bind { b: t, name: "x1".into(), val: if r.chance(1, 2) { V::Null } else { V::Int(3) } } });
        }
    }
    let mut ctxs: Vec<(usize, Vec<String>)> = vec![(0, vec![])];
    let mut next_c = 1;
    let n = 6 + r.usize(14);
    for _ in 0..n {
        let t = r.usize(nclients);
        match r.weighted(&[5, 6, 8, 2]) {
            0 => {
                let ci = r.usize(ctxs.len());
                let idx = r.usize(3);
                let name = PROGS[idx].to_string();
                // references go to lower-numbered programs only (no cycles: C12's ground)
                let (src, must) = match r.weighted(&[6, 3, if idx > 0 { 3 } else { 0 }]) {
                    0 => {
                        let (s, m) = *r.pick(&CLOCK_TEXTS);
                        (s.to_string(), m)
                    }
                    1 if r.chance(1, 2) => {
                        // the bare call under 1..4 levels of calls the folder could evaluate
                        let mut s = r.pick(&["now()", "timestamp()"]).to_string();
                        for _ in 0..(1 + r.usize(4)) {
                            s = r.pick(&FOLDABLE_WRAPS).replace("{}", &s);
                        }
                        (s, true)
                    }
                    1 => {
                        // composition: a clock text inside a generated expression without map literals
                        let (s, _) = *r.pick(&CLOCK_TEXTS);
                        let w = *r.pick(&["[{}, 1]", "({}) == ({})", "size([{}])", "[3, 4].map(v, [v, {}])", "string({})", "x0 ? ({}) : 0", "f'{{{}}}'"]);
                        let w = if w.starts_with("f'") && s.contains('\'') { "[{}, 1]" } else { w };
                        (w.replace("{}", s), false)
                    }
                    _ => {
                        // behind a reference to another stored program
                        let other = r.pick(&PROGS[..idx]).to_string();
                        let w = *r.pick(&["{}", "[{}]", "[1].map(v, {})", "coalesce({}, 1)", "f'{{{}}}'", "{} == {}"]);
                        (w.replace("{}", &other), false)
                    }
                };
                if !ctxs[ci].1.contains(&name) {
                    ctxs[ci].1.push(name.clone());
                }
                let c = ctxs[ci].0;
                if r.chance(1, 6) {
                    ops.push(Op { t, k: OpK::AddShared { c, name, src } });
                } else {
                    ops.push(Op { t, k: OpK::Add { c, name, src, must_read: must } });
                }
            }
            1 => {
                now = clock_move(&mut r, now);
                ops.push(Op { t, k: OpK::Clock { ns: now } });
            }
            2 => {
                let (c, names) = &ctxs[r.usize(ctxs.len())];
                if !names.is_empty() {
                    let name = r.pick(names).clone();
                    ops.push(Op { t, k: OpK::Exec { c: *c, name, b: t, times: 1 + r.usize(3) as u8, keys: r.bytes16(), minimal: r.chance(1, 2) } });
                }
            }
            _ => {
                if ctxs.len() < 3 {
                    let from = ctxs[r.usize(ctxs.len())].clone();
                    ctxs.push((next_c, from.1.clone()));
                    ops.push(Op { t, k: OpK::CloneCtx { from: from.0, to: next_c } });
                    next_c += 1;
                }
            }
        }
    }
    let (c, names) = ctxs[r.usize(ctxs.len())].clone();
    now = clock_move(&mut r, now);
    ops.push(Op { t: 0, k: OpK::Clock { ns: now } });
    for name in names {
        let t = r.usize(nclients);
        ops.push(Op { t, k: OpK::Exec { c, name, b: t, times: 1, keys: r.bytes16(), minimal: false } });
    }
    WorldCase { world: "C09".into(), clients, start_ns: t_c, label: "clock".into(), ops }
}

// ---------------------------------------------------------------------------------------------
// C12: scenarios whose expectation the generator derives without evaluating CEL
// ---------------------------------------------------------------------------------------------

const TYPES: [&str; 11] = ["bool", "int", "uint", "float", "double", "string", "bytes", "type", "timestamp", "duration", "null_type"];
/// constructs through which one stored program references another
const CONSTRUCTS: [&str; 8] = ["bare", "operand", "macro_body", "macro_range", "call_arg", "has", "coalesce", "fstring"];

fn type_value(n: &str) -> V {
    V::Type(if n == "double" { "float".to_string() } else { n.to_string() })
}

/// text of a program that yields `tag + value of program `next`` with the reference inside `construct`
fn edge(construct: &str, tag: &str, next: &str) -> String {
    match construct {
        "bare" => format!("'{}' + {}", tag, next),
        "operand" => format!("'{}' + (true ? {} : 'never')", tag, next),
        "macro_body" => format!("'{}' + [1].map(v, {})[0]", tag, next),
        "macro_range" => format!("'{}' + [{}].map(v, v)[0]", tag, next),
        "call_arg" => format!("'{}' + idf({})", tag, next),
        "has" => format!("'{}' + (has({}) ? {} : 'absent')", tag, next, next),
        "coalesce" => format!("'{}' + coalesce({}, 'null')", tag, next),
        // cycle-only constructs: the reference stands where an ordinary failure would be
        // absorbed (by `||`) or stored (as a list element); running out of call depth is not
        // an ordinary failure, the chain still ends in an error
        "or_absorbed" => format!("'{}' + (({} || true) ? 'y' : 'n')", tag, next),
        "list_element" => format!("'{}' + string(size([{}, 1]))", tag, next),
        "fstring_absorbed" => format!("'{}' + (((f'{{{}}}' == 'x') || true) ? 'y' : 'n')", tag, next),
        "ctor_absorbed" => format!("'{}' + (((string({}) == 'x') || true) ? 'y' : 'n')", tag, next),
        "call_arg_absorbed" => format!("'{}' + (((idf({}) == 'x') || true) ? 'y' : 'n')", tag, next),
        "macro_absorbed" => format!("'{}' + ((([1].map(v, {})[0] == 'x') || true) ? 'y' : 'n')", tag, next),
        "coalesce_absorbed" => format!("'{}' + (((coalesce({}, 'n') == 'x') || true) ? 'y' : 'n')", tag, next),
        "has_absorbed" => format!("'{}' + ((has({}) || true) ? 'y' : 'n')", tag, next),
        "ctor_in_list" => format!("'{}' + string(size([string({})]))", tag, next),
        // the reference is reached for an element that precedes a deciding one
        "exists_before_deciding" => format!("'{}' + ([1, 2].exists(v, v == 1 ? {} == 'x' : true) ? 'y' : 'n')", tag, next),
        "all_before_deciding" => format!("'{}' + ([1, 2].all(v, v == 1 ? {} == 'x' : false) ? 'y' : 'n')", tag, next),
        // the body (predicate, step, seed) of every macro over a list and over a map receiver:
        // each builds its own interpreter for the body, each must carry the call depth
        "body_all" => format!("'{}' + ([1].all(v, {} == 'x') ? 'y' : 'n')", tag, next),
        "body_exists" => format!("'{}' + ([1].exists(v, {} == 'x') ? 'y' : 'n')", tag, next),
        "body_exists_one" => format!("'{}' + ([1].exists_one(v, {} == 'x') ? 'y' : 'n')", tag, next),
        "body_filter" => format!("'{}' + string(size([1].filter(v, {} == 'x')))", tag, next),
        "body_map3_pred" => format!("'{}' + string(size([1].map(v, {} == 'x', v)))", tag, next),
        "body_map3" => format!("'{}' + [1].map(v, true, {})[0]", tag, next),
        "body_reduce_step" => format!("'{}' + [1].reduce(acc, v, acc + {}, '')", tag, next),
        "body_reduce_seed" => format!("'{}' + [1].reduce(acc, v, acc, {})", tag, next),
        "body_map_over_map" => format!("'{}' + {{'k': 1}}.map(v, {})[0]", tag, next),
        "body_filter_over_map" => format!("'{}' + string(size({{'k': 1}}.filter(v, {} == 'x')))", tag, next),
        "body_filter_over_bound_map" => format!("'{}' + string(size(bm.filter(v, {} == 'x')))", tag, next),
        "body_map_over_bound_map" => format!("'{}' + bm.map(v, {})[0]", tag, next),
        _ => format!("f'{}{{{}}}'", tag, next),
    }
}

#[derive(Clone, Debug)]
enum Sc {
    /// identifier `name` bound as (type?) variable / program: which wins
    Resolve { name: &'static str, var: bool, prog: bool },
    /// `pos`: where the colliding name stands (list element, macro body, call argument,
    /// f-string, coalesce, list inside a macro body over a constant range)
    VarVsProg { pos: usize },
    ProgUnderSameBindings,
    Unbound,
    FuncVsType { ty: &'static str },
    /// `method`: the call is written in receiver position (`x0.map(v, v)`), resolved by
    /// the interpreter's member-call path instead of the free-call path
    FuncVsMacro { mac: &'static str, method: bool },
    /// a function bound under a built-in function's or type's name, called inside a macro
    /// body (one and two macros deep) with a non-constant argument
    FuncInMacroBody { name: &'static str },
    /// `x0.m()` where the bound map x0 has a field m and m also names a method
    FieldVsMethodCalled { method: &'static str, bound: bool },
    FieldVsMethod { method: &'static str },
    /// `via_macro`: the referencing program mentions q only inside a macro body;
    /// `clone_alive`: a clone of the context is taken after the first exec and kept
    ReplaceProgram { through_ref: bool, via_macro: bool, clone_alive: bool },
    /// a cycle is executed `times` times (each ends in the depth error), then a chain of n
    /// programs must still evaluate on the same thread, context and bindings
    AfterCycle { construct: &'static str, times: usize, n: usize },
    /// k failures absorbed by has / coalesce / || in one program, then a chain of n programs
    ManyAbsorbed { form: usize, k: usize, n: usize },
    /// two contexts hold different programs under the same names
    TwoContexts,
    /// a cycle whose programs reference the next one twice: it must end in an error, and
    /// soon (the depth guard has to end the evaluation, not merely fail one operand)
    CycleFan { form: usize, len: usize },
    /// a stored program referenced from a macro body reads the loop variable (it is evaluated
    /// under the same bindings, of which the loop variable is one)
    ProgReadsLoopVar { macro_kind: usize },
    /// variables named like built-in functions / macros, bound from JSON and directly
    JsonCallableNames,
    /// a function and a macro bound by the caller under one name, in either order: the
    /// function wins in call position (free and receiver form)
    FuncAndMacroBound { func_first: bool },
    /// a bound function shares its name with a stored program (`prog`) or a bound variable:
    /// in value position the name is the program / variable, in call position the function
    FuncSharesName { prog: bool },
    Rebind,
    Json,
    Chain { construct: &'static str, n: usize },
    Cycle { construct: &'static str, len: usize, entry: usize },
    Loop { macro_kind: usize, len: usize, depth: usize },
    Dag,
    RandomGraph,
    /// rho-shaped graph: a path c0 -> c1 -> .. -> c(n-1) whose last node references
    /// `back` (a cycle) or nothing; `constructs[i]` is the construct of the edge leaving ci
    Rho { n: usize, back: Option<usize>, constructs: Vec<&'static str> },
    /// DAG over n <= 4 nodes: bit (i, j), i < j, of `mask` is the edge gi -> gj
    DagEnum { n: usize, mask: u32, construct: &'static str },
}

/// every assignment of the 8 referencing constructs to `edges` edges
fn construct_vectors(edges: usize) -> Vec<Vec<&'static str>> {
    let mut out: Vec<Vec<&'static str>> = vec![vec![]];
    for _ in 0..edges {
        let mut next = vec![];
        for v in out.iter() {
            for c in CONSTRUCTS.iter() {
                let mut w = v.clone();
                w.push(*c);
                next.push(w);
            }
        }
        out = next;
    }
    out
}

/// all rho-shaped reference graphs reachable from the entry with up to `max_n` nodes and
/// every construct per edge (`full_n`: node counts enumerated with every construct vector;
/// larger ones with one construct for all edges)
fn rho_scenarios(max_n: usize, full_n: usize) -> Vec<Sc> {
    let mut v = vec![];
    for n in 1..=max_n {
        let mut backs: Vec<Option<usize>> = vec![None];
        for b in 0..n {
            backs.push(Some(b));
        }
        for back in backs {
            let edges = n - 1 + if back.is_some() { 1 } else { 0 };
            if n <= full_n {
                for cs in construct_vectors(edges) {
                    v.push(Sc::Rho { n, back, constructs: cs });
                }
            } else {
                for c in CONSTRUCTS.iter() {
                    v.push(Sc::Rho { n, back, constructs: vec![*c; edges] });
                }
            }
        }
    }
    v
}

fn dag_scenarios() -> Vec<Sc> {
    let mut v = vec![];
    for n in 2..=4usize {
        let pairs = n * (n - 1) / 2;
        for mask in 0..(1u32 << pairs) {
            for c in ["bare", "operand", "macro_body", "macro_range", "call_arg", "has", "coalesce", "fstring"] {
                v.push(Sc::DagEnum { n, mask, construct: c });
            }
        }
    }
    v
}

fn scenarios(thorough: bool) -> Vec<Sc> {
    let mut v = vec![];
    for t in TYPES.iter() {
        v.push(Sc::Resolve { name: t, var: true, prog: false });
        v.push(Sc::Resolve { name: t, var: false, prog: true });
        v.push(Sc::Resolve { name: t, var: true, prog: true });
    }
    for pos in 0..6 {
        v.push(Sc::VarVsProg { pos });
    }
    v.push(Sc::ProgUnderSameBindings);
    v.push(Sc::Unbound);
    for t in ["int", "uint", "double", "string", "bool", "bytes", "duration", "timestamp", "type"] {
        v.push(Sc::FuncVsType { ty: t });
    }
    for n in ["size", "int", "string", "toUpper", "max", "coalesce"] {
        v.push(Sc::FuncInMacroBody { name: n });
    }
    v.push(Sc::FuncVsMacro { mac: "coalesce", method: false });
    v.push(Sc::FuncVsMacro { mac: "has", method: false });
    for m in ["all", "exists", "exists_one", "filter", "map", "reduce"] {
        v.push(Sc::FuncVsMacro { mac: m, method: true });
        v.push(Sc::FuncVsMacro { mac: m, method: false });
    }
    for m in ["size", "contains", "map", "filter", "all"] {
        v.push(Sc::FieldVsMethod { method: m });
    }
    for m in ["size", "tagm", "helper"] {
        v.push(Sc::FieldVsMethodCalled { method: m, bound: m != "size" });
    }
    for (through_ref, via_macro) in [(false, false), (true, false), (true, true)] {
        for clone_alive in [false, true] {
            v.push(Sc::ReplaceProgram { through_ref, via_macro, clone_alive });
        }
    }
    for c in ["bare", "macro_body", "coalesce", "fstring"] {
        for times in [1usize, 2, 17, 33] {
            for n in [1usize, 8, 16] {
                v.push(Sc::AfterCycle { construct: c, times, n });
            }
        }
    }
    for form in 0..4usize {
        for k in [4usize, 20, 33, 48] {
            for n in [1usize, 8, 16] {
                v.push(Sc::ManyAbsorbed { form, k, n });
            }
        }
    }
    v.push(Sc::TwoContexts);
    for k in 0..4 {
        v.push(Sc::ProgReadsLoopVar { macro_kind: k });
    }
    v.push(Sc::JsonCallableNames);
    v.push(Sc::FuncAndMacroBound { func_first: true });
    v.push(Sc::FuncAndMacroBound { func_first: false });
    v.push(Sc::FuncSharesName { prog: true });
    v.push(Sc::FuncSharesName { prog: false });
    v.push(Sc::Rebind);
    v.push(Sc::Json);
    let lens: &[usize] = if thorough { &[1, 2, 3, 4, 8, 12, 15, 16, 17, 20, 24, 31, 32, 33, 40, 48, 64] } else { &[1, 2, 8, 15, 16, 17, 32, 33, 64] };
    for c in CONSTRUCTS.iter() {
        for n in lens {
            v.push(Sc::Chain { construct: c, n: *n });
        }
        for len in 1..=3usize {
            for entry in 0..=1usize {
                v.push(Sc::Cycle { construct: c, len, entry });
            }
        }
    }
    for c in ["or_absorbed", "list_element", "fstring_absorbed", "ctor_absorbed", "call_arg_absorbed", "macro_absorbed", "coalesce_absorbed", "has_absorbed", "ctor_in_list", "exists_before_deciding", "all_before_deciding", "body_all", "body_exists", "body_exists_one", "body_filter", "body_map3_pred", "body_map3", "body_reduce_step", "body_reduce_seed", "body_map_over_map", "body_filter_over_map", "body_filter_over_bound_map", "body_map_over_bound_map"] {
        for len in 1..=3usize {
            for entry in 0..=1usize {
                v.push(Sc::Cycle { construct: c, len, entry });
            }
        }
    }
    for form in 0..6usize {
        for len in 1..=2usize {
            v.push(Sc::CycleFan { form, len });
        }
    }
    for k in 0..5 {
        for len in [33usize, 40, 64] {
            for depth in [1usize, 8, 14] {
                v.push(Sc::Loop { macro_kind: k, len, depth });
            }
        }
    }
    // the statement's own bound: every reference graph of up to 4 programs reachable from the
    // entry.  With one reference per program these are the rho shapes (a path that ends or
    // closes a cycle at any of its nodes), enumerated with every construct on every edge
    // (quick: complete up to 3 programs, 4 programs with one construct for all edges);
    // with fan-out these are the DAGs over a fixed topological order (every edge subset),
    // one construct for all edges.  Cyclic graphs with fan-out are excluded: the depth
    // guard bounds the stack, not the time (2^32 evaluations).
    v.extend(rho_scenarios(4, if thorough { 4 } else { 3 }));
    v.extend(dag_scenarios());
    v
}

pub fn c12_enumerated(thorough: bool) -> u64 {
    scenarios(thorough).len() as u64
}

fn gen12_enumerated(k: u64, seed: u64, thorough: bool) -> WorldCase {
    let sc = scenarios(thorough)[k as usize].clone();
    build12(&sc, seed)
}

fn gen12_random(seed: u64) -> WorldCase {
    let mut r = Rng::new(seed);
    let sc = match r.weighted(&[3, 3, 3, 4, 4, 1, 1, 1, 1, 1]) {
        0 => Sc::Chain { construct: "mixed", n: 1 + r.usize(16) },
        1 => Sc::Chain { construct: *r.pick(&CONSTRUCTS), n: 1 + r.usize(64) },
        2 => Sc::Cycle { construct: "mixed", len: 1 + r.usize(4), entry: r.usize(3) },
        3 => Sc::Dag,
        4 => Sc::RandomGraph,
        5 => Sc::Loop { macro_kind: r.usize(5), len: 33 + r.usize(32), depth: 1 + r.usize(14) },
        6 => {
            let t = *r.pick(&TYPES);
            Sc::Resolve { name: t, var: r.chance(1, 2), prog: true }
        }
        7 => {
            let through_ref = r.chance(2, 3);
            Sc::ReplaceProgram { through_ref, via_macro: through_ref && r.chance(1, 2), clone_alive: r.chance(1, 2) }
        }
        8 => Sc::Json,
        _ => Sc::Rebind,
    };
    build12(&sc, r.next())
}

fn build12(sc: &Sc, seed: u64) -> WorldCase {
    let mut r = Rng::new(seed);
    let nclients = 1 + r.usize(2);
    let clients: Vec<[u8; 16]> = (0..nclients).map(|_| r.bytes16()).collect();
    let t_exec = nclients - 1;
    // client 0 builds the context, the last client owns the bindings and executes
    let mut ops: Vec<Op> = vec![Op { t: 0, k: OpK::NewCtx { c: 0 } }, Op { t: t_exec, k: OpK::NewB { b: 0 } }];
    let uniq = r.range(100, 999);
    let tag = |what: &str, name: &str, n: i64| V::Str(format!("{}:{}#{}", what, name, n));
    let add = |ops: &mut Vec<Op>, name: &str, src: String| ops.push(Op { t: 0, k: OpK::Add { c: 0, name: name.to_string(), src, must_read: false } });
    let bind = |ops: &mut Vec<Op>, name: &str, val: V| ops.push(Op { t: t_exec, k: OpK::Bind { b: 0, name: name.to_string(), val } });
    let expect = |ops: &mut Vec<Op>, r: &mut Rng, name: &str, want: Want| ops.push(Op { t: t_exec, k: OpK::Expect { c: 0, name: name.to_string(), b: 0, keys: r.bytes16(), want } });
    let label: String;
    match sc {
        Sc::Resolve { name, var, prog } => {
            label = format!("resolve-type-first:{}{}", if *var { "v" } else { "" }, if *prog { "p" } else { "" });
            if *var {
                bind(&mut ops, name, tag("param", name, uniq));
            }
            if *prog {
                add(&mut ops, name, tag("prog", name, uniq).render());
            }
            ops.push(Op { t: t_exec, k: OpK::BindFunc { b: 0, name: "idf".into(), ret: V::Other("arg0".into()) } });
            let src = match r.usize(6) {
                0 => name.to_string(),
                1 => format!("[{}][0]", name),
                2 => format!("true ? {} : 1", name),
                // the same order inside a macro body, a call argument and a map value
                3 => format!("[1].map(v, {})[0]", name),
                4 => format!("idf({})", name),
                _ => format!("{{'k': {}}}.k", name),
            };
            add(&mut ops, "main", src);
            // which spelling the type value prints with is not C12's business
            let _ = type_value(name);
            expect(&mut ops, &mut r, "main", Want::AnyType);
        }
        Sc::VarVsProg { pos } => {
            label = "resolve-variable-before-program".into();
            let n = *r.pick(&["x0", "q", "cfg"]);
            if r.chance(1, 2) {
                add(&mut ops, n, tag("prog", n, uniq).render());
                bind(&mut ops, n, tag("param", n, uniq));
            } else {
                bind(&mut ops, n, tag("param", n, uniq));
                add(&mut ops, n, tag("prog", n, uniq).render());
            }
            ops.push(Op { t: t_exec, k: OpK::BindFunc { b: 0, name: "idf".into(), ret: V::Other("arg0".into()) } });
            let src = match *pos {
                5 => format!("[1, 2].map(v, [v, {}])[1][1]", n),
                0 => format!("[{}, 1][0]", n),
                1 => format!("[1].map(v, {})[0]", n),
                2 => format!("idf({})", n),
                3 => format!("f'{{{}}}'", n),
                _ => format!("coalesce({}, 'none')", n),
            };
            add(&mut ops, "main", src);
            expect(&mut ops, &mut r, "main", Want::Val(tag("param", n, uniq)));
            // executing the colliding name itself runs the stored program
        }
        Sc::ProgUnderSameBindings => {
            label = "program-under-same-bindings".into();
            bind(&mut ops, "x0", tag("param", "x0", uniq));
            add(&mut ops, "q", "x0".into());
            add(&mut ops, "main", "['via', q]".into());
            expect(&mut ops, &mut r, "main", Want::Val(V::List(vec![V::s("via"), tag("param", "x0", uniq)])));
        }
        Sc::Unbound => {
            label = "unbound-fails".into();
            add(&mut ops, "main", "nobody_binds_this".into());
            expect(&mut ops, &mut r, "main", Want::Fail);
        }
        Sc::FuncVsType { ty } => {
            label = "call-function-before-type".into();
            ops.push(Op { t: t_exec, k: OpK::BindFunc { b: 0, name: ty.to_string(), ret: tag("func", ty, uniq) } });
            bind(&mut ops, "x0", V::Int(3));
            add(&mut ops, "main", format!("{}(x0)", ty));
            expect(&mut ops, &mut r, "main", Want::Val(tag("func", ty, uniq)));
        }
        Sc::FuncInMacroBody { name } => {
            label = "call-function-inside-macro-body".into();
            ops.push(Op { t: t_exec, k: OpK::BindFunc { b: 0, name: name.to_string(), ret: tag("func", name, uniq) } });
            bind(&mut ops, "x0", V::List(vec![V::s("ab"), V::s("cde")]));
            let t = tag("func", name, uniq);
            add(&mut ops, "main", format!("x0.map(w, {}(w))", name));
            expect(&mut ops, &mut r, "main", Want::Val(V::List(vec![t.clone(), t.clone()])));
            add(&mut ops, "nested", format!("[x0].map(l, l.map(w, {}(w)))", name));
            expect(&mut ops, &mut r, "nested", Want::Val(V::List(vec![V::List(vec![t.clone(), t.clone()])])));
            add(&mut ops, "top", format!("{}(x0[0])", name));
            expect(&mut ops, &mut r, "top", Want::Val(t));
        }
        Sc::FuncVsMacro { mac, method } => {
            label = format!("call-function-before-macro{}", if *method { ":method" } else { "" });
            ops.push(Op { t: t_exec, k: OpK::BindFunc { b: 0, name: mac.to_string(), ret: tag("func", mac, uniq) } });
            if *method {
                // non-constant receiver: folding of rebound built-ins is outside the statement
                bind(&mut ops, "x0", V::List(vec![V::Int(1), V::Int(2)]));
                add(&mut ops, "main", format!("x0.{}(x1, x1)", mac));
                bind(&mut ops, "x1", V::Int(5));
            } else {
                bind(&mut ops, "x0", V::Int(3));
                add(&mut ops, "main", if *mac == "has" { "has(x0)".to_string() } else { format!("{}(x0, 4)", mac) });
            }
            expect(&mut ops, &mut r, "main", Want::Val(tag("func", mac, uniq)));
        }
        Sc::FieldVsMethod { method } => {
            label = "map-field-before-method".into();
            let mut m = BTreeMap::new();
            m.insert(method.to_string(), tag("field", method, uniq));
            m.insert("other".to_string(), V::Int(1));
            bind(&mut ops, "x0", V::Map(m));
            add(&mut ops, "main", format!("x0.{}", method));
            expect(&mut ops, &mut r, "main", Want::Val(tag("field", method, uniq)));
        }
        Sc::FieldVsMethodCalled { method, bound } => {
            // call position: the member is still the field, and a field value is not callable;
            // the method of that name (built in, or bound by the caller) must not answer
            label = format!("map-field-before-method-called{}", if *bound { "-bound-function" } else { "" });
            let mut m = BTreeMap::new();
            m.insert(method.to_string(), tag("field", method, uniq));
            m.insert("other".to_string(), V::Int(1));
            bind(&mut ops, "x0", V::Map(m));
            if *bound {
                ops.push(Op { t: t_exec, k: OpK::BindFunc { b: 0, name: method.to_string(), ret: tag("func", method, uniq) } });
            }
            add(&mut ops, "plain", format!("x0.{}", method));
            expect(&mut ops, &mut r, "plain", Want::Val(tag("field", method, uniq)));
            add(&mut ops, "main", format!("x0.{}()", method));
            expect(&mut ops, &mut r, "main", Want::Fail);
        }
        Sc::ReplaceProgram { through_ref, via_macro, clone_alive } => {
            label = format!("replace-program{}{}{}", if *through_ref { "-referenced" } else { "" }, if *via_macro { "-in-macro-body" } else { "" }, if *clone_alive { "-clone-alive" } else { "" });
            add(&mut ops, "q", tag("prog", "q", uniq).render());
            let main_src = if *via_macro {
                "[[1].map(v, q)[0], 'm']".to_string()
            } else if *through_ref {
                "[q, 'm']".to_string()
            } else {
                "'unused'".to_string()
            };
            add(&mut ops, "main", main_src);
            let target = if *through_ref { "main" } else { "q" };
            let wrap = |v: V| if *through_ref { V::List(vec![v, V::s("m")]) } else { v };
            expect(&mut ops, &mut r, target, Want::Val(wrap(tag("prog", "q", uniq))));
            if *clone_alive {
                // the clone is never dropped; it must keep the programs it was cloned with
                ops.push(Op { t: 0, k: OpK::CloneCtx { from: 0, to: 1 } });
            }
            let rounds = 1 + r.usize(3);
            for i in 1..=rounds {
                if r.chance(1, 2) {
                    add(&mut ops, "q", tag("prog", "q", uniq + i as i64).render());
                } else {
                    ops.push(Op { t: 0, k: OpK::AddShared { c: 0, name: "q".into(), src: tag("prog", "q", uniq + i as i64).render() } });
                }
                expect(&mut ops, &mut r, target, Want::Val(wrap(tag("prog", "q", uniq + i as i64))));
                if *clone_alive {
                    ops.push(Op { t: t_exec, k: OpK::Expect { c: 1, name: target.to_string(), b: 0, keys: r.bytes16(), want: Want::Val(wrap(tag("prog", "q", uniq))) } });
                }
            }
        }
        Sc::AfterCycle { construct, times, n } => {
            ops.push(Op { t: t_exec, k: OpK::BindFunc { b: 0, name: "idf".into(), ret: V::Other("arg0".into()) } });
            label = format!("after-cycle:{}", construct);
            add(&mut ops, "cyc", edge(construct, "cy:", "cyc"));
            let mut expected = String::new();
            for i in 0..*n {
                let t = format!("t{}#{}:", i, uniq);
                expected.push_str(&t);
                if i + 1 == *n {
                    add(&mut ops, &format!("c{}", i), format!("'{}end'", t));
                } else {
                    add(&mut ops, &format!("c{}", i), edge(if i % 2 == 0 { "bare" } else { construct }, &t, &format!("c{}", i + 1)));
                }
            }
            expected.push_str("end");
            for _ in 0..*times {
                expect(&mut ops, &mut r, "cyc", Want::Fail);
            }
            expect(&mut ops, &mut r, "c0", Want::Val(V::Str(expected)));
        }
        Sc::ManyAbsorbed { form, k, n } => {
            label = format!("many-absorbed:{}", ["has", "coalesce", "or", "mixed"][*form]);
            let mut expected = String::new();
            for i in 0..*n {
                let t = format!("t{}#{}:", i, uniq);
                expected.push_str(&t);
                if i + 1 == *n {
                    add(&mut ops, &format!("c{}", i), format!("'{}end'", t));
                } else {
                    add(&mut ops, &format!("c{}", i), edge("bare", &t, &format!("c{}", i + 1)));
                }
            }
            expected.push_str("end");
            bind(&mut ops, "x0", V::map(vec![("present", V::Int(1))]));
            let one = |j: usize| -> String {
                match if *form == 3 { j % 3 } else { *form } {
                    0 => format!("has(x0.gone{})", j),
                    1 => format!("coalesce(nobody{}, x0.gone{}, false)", j, j),
                    _ => format!("!(nobody{} || x0.gone{} || true)", j, j),
                }
            };
            // k absorbed failures, every part yields false so that all of them are evaluated,
            // then the chain
            let parts: Vec<String> = (0..*k).map(one).collect();
            let src = format!("({}) ? 'no' : c0", parts.join(" || "));
            add(&mut ops, "main", src);
            expect(&mut ops, &mut r, "main", Want::Val(V::Str(expected)));
        }
        Sc::ProgReadsLoopVar { macro_kind } => {
            label = format!("program-reads-loop-variable:{}", ["map", "filter", "map3", "nested"][*macro_kind]);
            let t = format!("q#{}:", uniq);
            add(&mut ops, "q", format!("'{}' + v", t));
            add(&mut ops, "r2", "q + '!'".to_string());
            let el = |s: &str| V::Str(format!("{}{}", t, s));
            let (src, want) = match macro_kind {
                0 => ("['a', 'b', 'c'].map(v, q)".to_string(), V::List(vec![el("a"), el("b"), el("c")])),
                1 => (format!("['a', 'b', 'c'].filter(v, q != '{}b')", t), V::List(vec![V::s("a"), V::s("c")])),
                2 => (format!("['a', 'b', 'c'].map(v, q != '{}a', r2)", t), V::List(vec![V::Str(format!("{}b!", t)), V::Str(format!("{}c!", t))])),
                _ => ("[['a'], ['b', 'c']].map(l, l.map(v, r2))".to_string(), V::List(vec![V::List(vec![V::Str(format!("{}a!", t))]), V::List(vec![V::Str(format!("{}b!", t)), V::Str(format!("{}c!", t))])])),
            };
            // outside a macro the name means whatever the caller bound
            bind(&mut ops, "v", V::s("outer"));
            add(&mut ops, "main", src);
            expect(&mut ops, &mut r, "main", Want::Val(want));
            expect(&mut ops, &mut r, "q", Want::Val(el("outer")));
        }
        Sc::JsonCallableNames => {
            label = "json-binding-of-callable-names".into();
            let names = ["size", "max", "filter", "now", "sort", "all", "min", "contains"];
            let mut vals = BTreeMap::new();
            let mut want = vec![];
            for n in names.iter() {
                let v = tag("param", n, uniq);
                vals.insert(n.to_string(), v.clone());
                want.push(v);
            }
            if r.chance(1, 2) {
                ops.push(Op { t: t_exec, k: OpK::BindJson { b: 0, vals } });
            } else {
                // directly first, then again from JSON with other values: the later binding wins
                for (n, v) in vals.iter() {
                    bind(&mut ops, n, V::s("earlier"));
                    let _ = v;
                }
                ops.push(Op { t: t_exec, k: OpK::BindJson { b: 0, vals } });
            }
            add(&mut ops, "main", format!("[{}]", names.join(", ")));
            expect(&mut ops, &mut r, "main", Want::Val(V::List(want)));
        }
        Sc::FuncAndMacroBound { func_first } => {
            label = format!("call-function-before-caller-macro:{}", if *func_first { "function-bound-first" } else { "macro-bound-first" });
            let n = *r.pick(&["pick", "choose", "q"]);
            let f = Op { t: t_exec, k: OpK::BindFunc { b: 0, name: n.to_string(), ret: tag("func", n, uniq) } };
            let mc = Op { t: t_exec, k: OpK::BindMacro { b: 0, name: n.to_string(), ret: tag("macro", n, uniq) } };
            if *func_first {
                ops.push(f);
                ops.push(mc);
            } else {
                ops.push(mc);
                ops.push(f);
            }
            // a macro of its own name is used when no function shares it
            ops.push(Op { t: t_exec, k: OpK::BindMacro { b: 0, name: "onlymacro".into(), ret: tag("macro", "onlymacro", uniq) } });
            bind(&mut ops, "x0", V::List(vec![V::Int(1), V::Int(2)]));
            add(&mut ops, "free", format!("{}(x0)", n));
            add(&mut ops, "method", format!("x0.{}(x0)", n));
            add(&mut ops, "inbody", format!("x0.map(v, {}(v))", n));
            add(&mut ops, "plainmacro", "onlymacro(x0)".to_string());
            let t = tag("func", n, uniq);
            expect(&mut ops, &mut r, "free", Want::Val(t.clone()));
            expect(&mut ops, &mut r, "method", Want::Val(t.clone()));
            expect(&mut ops, &mut r, "inbody", Want::Val(V::List(vec![t.clone(), t])));
            expect(&mut ops, &mut r, "plainmacro", Want::Val(tag("macro", "onlymacro", uniq)));
        }
        Sc::FuncSharesName { prog } => {
            label = format!("function-shares-name-with-{}", if *prog { "program" } else { "variable" });
            let n = *r.pick(&["q", "cfg", "x3"]);
            ops.push(Op { t: t_exec, k: OpK::BindFunc { b: 0, name: n.to_string(), ret: tag("func", n, uniq) } });
            if *prog {
                add(&mut ops, n, tag("prog", n, uniq).render());
            } else {
                bind(&mut ops, n, tag("param", n, uniq));
            }
            bind(&mut ops, "x0", V::Int(3));
            add(&mut ops, "asvalue", format!("[{}, 1][0]", n));
            add(&mut ops, "ascall", format!("{}(x0)", n));
            expect(&mut ops, &mut r, "asvalue", Want::Val(tag(if *prog { "prog" } else { "param" }, n, uniq)));
            expect(&mut ops, &mut r, "ascall", Want::Val(tag("func", n, uniq)));
        }
        Sc::CycleFan { form, len } => {
            ops.push(Op { t: t_exec, k: OpK::BindFunc { b: 0, name: "idf".into(), ret: V::Other("arg0".into()) } });
            label = format!("cycle-fan-out-2:{}", ["bare", "macro_body", "fstring", "coalesce", "call_arg", "or_absorbed"][*form]);
            for i in 0..*len {
                let n = format!("c{}", (i + 1) % len);
                let src = match form {
                    0 => format!("{} + {}", n, n),
                    1 => format!("[1].map(v, {})[0] + [1].map(v, {})[0]", n, n),
                    2 => format!("f'{{{}}}{{{}}}'", n, n),
                    3 => format!("coalesce({}, 'a') + coalesce({}, 'b')", n, n),
                    4 => format!("idf({}) + idf({})", n, n),
                    _ => format!("({} || true) && ({} || true)", n, n),
                };
                add(&mut ops, &format!("c{}", i), src);
            }
            expect(&mut ops, &mut r, "c0", Want::Fail);
        }
        Sc::TwoContexts => {
            label = "two-contexts-same-names".into();
            ops.push(Op { t: 0, k: OpK::NewCtx { c: 1 } });
            let add_in = |ops: &mut Vec<Op>, c: usize, name: &str, src: String| ops.push(Op { t: 0, k: OpK::Add { c, name: name.to_string(), src, must_read: false } });
            for c in [0usize, 1] {
                add_in(&mut ops, c, "q", tag("prog", "q", uniq + c as i64).render());
                add_in(&mut ops, c, "main", "[q, [1].map(v, q)[0]]".to_string());
            }
            for round in 0..3i64 {
                for c in [0usize, 1, 0] {
                    let tv = tag("prog", "q", uniq + c as i64 + if c == 1 { 10 * round } else { 0 });
                    ops.push(Op { t: t_exec, k: OpK::Expect { c, name: "main".into(), b: 0, keys: r.bytes16(), want: Want::Val(V::List(vec![tv.clone(), tv])) } });
                }
                // replace q in context 1 only
                add_in(&mut ops, 1, "q", tag("prog", "q", uniq + 1 + 10 * (round + 1)).render());
            }
        }
        Sc::Rebind => {
            label = "rebind-variable".into();
            add(&mut ops, "main", "[x0]".into());
            for i in 0..(2 + r.usize(3)) {
                let v = if r.chance(1, 2) { tag("param", "x0", uniq + i as i64) } else { V::Int(uniq + i as i64) };
                if r.chance(1, 3) {
                    let mut vals = BTreeMap::new();
                    vals.insert("x0".to_string(), v.clone());
                    ops.push(Op { t: t_exec, k: OpK::BindJson { b: 0, vals } });
                } else {
                    bind(&mut ops, "x0", v.clone());
                }
                expect(&mut ops, &mut r, "main", Want::Val(V::List(vec![v])));
            }
        }
        Sc::Json => {
            label = "json-binding-equals-direct".into();
            let mut vals = BTreeMap::new();
            for n in ["x0", "x1", "x2"] {
                let mut v = match r.below(8) {
                    // integers beyond 2^53 and the ends of the range survive JSON exactly
                    0 => V::Int(*r.pick(&[9_007_199_254_740_993i64, -9_007_199_254_740_993, i64::MAX, i64::MIN + 1, 4_294_967_296, -2_147_483_649])),
                    1 => V::f(*r.pick(&[0.5f64, -1.25, 1e300, 2.5e-10, 1234.0625])),
                    2 => V::map(vec![("n", V::Map(BTreeMap::new())), ("l", V::List(vec![V::Null, V::Bool(false), V::s("")])), ("big", V::Int(9_007_199_254_740_993))]),
                    // unsigned values above the int range stay unsigned, at top level and nested
                    3 => V::UInt(*r.pick(&[u64::MAX, 9_223_372_036_854_775_808, 18_446_744_073_709_551_557])),
                    4 => V::List(vec![V::Int(1), V::UInt(u64::MAX), V::map(vec![("u", V::UInt(9_223_372_036_854_775_809)), ("z", V::Null)])]),
                    _ => value(&mut r, 2),
                };
                if !super::json_safe(&v) {
                    v = V::Int(small_int(&mut r));
                }
                vals.insert(n.to_string(), v);
            }
            ops.push(Op { t: t_exec, k: OpK::BindJson { b: 0, vals: vals.clone() } });
            add(&mut ops, "main", "[x0, x1, x2]".into());
            expect(&mut ops, &mut r, "main", Want::Val(V::List(vec![vals["x0"].clone(), vals["x1"].clone(), vals["x2"].clone()])));
            // the literal rendering of the same values compares equal to the bound ones
            add(&mut ops, "cmp", format!("[x0, x1, x2] == {}", V::List(vec![vals["x0"].clone(), vals["x1"].clone(), vals["x2"].clone()]).render()));
            expect(&mut ops, &mut r, "cmp", Want::Val(V::Bool(true)));
        }
        Sc::Chain { construct, n } => {
            ops.push(Op { t: t_exec, k: OpK::BindFunc { b: 0, name: "idf".into(), ret: V::Other("arg0".into()) } });
            let mixed = *construct == "mixed";
            label = format!("chain:{}:{}", construct, if *n <= 16 { "le16" } else { "gt16" });
            let mut expected = String::new();
            let mut has_edges = 0;
            // declaration order is shuffled: a reference may precede the program it names
            let mut decl: Vec<usize> = (0..*n).collect();
            for i in (1..decl.len()).rev() {
                decl.swap(i, r.usize(i + 1));
            }
            let mut texts: Vec<String> = vec![];
            for i in 0..*n {
                let t = format!("t{}#{}:", i, uniq);
                expected.push_str(&t);
                if i + 1 == *n {
                    texts.push(format!("'{}end'", t));
                } else {
                    let mut c = if mixed { *r.pick(&CONSTRUCTS) } else { *construct };
                    if c == "has" {
                        has_edges += 1;
                        if has_edges > 3 {
                            c = "coalesce";
                        }
                    }
                    texts.push(edge(c, &t, &format!("c{}", i + 1)));
                }
            }
            expected.push_str("end");
            for i in decl {
                add(&mut ops, &format!("c{}", i), texts[i].clone());
            }
            let want = if *n <= 16 { Want::Val(V::Str(expected)) } else { Want::ValOrFail(V::Str(expected)) };
            expect(&mut ops, &mut r, "c0", want);
        }
        Sc::Cycle { construct, len, entry } => {
            ops.push(Op { t: t_exec, k: OpK::BindFunc { b: 0, name: "idf".into(), ret: V::Other("arg0".into()) } });
            label = format!("cycle:{}:{}", construct, len);
            if construct.contains("bound_map") {
                bind(&mut ops, "bm", V::map(vec![("k", V::Int(1))]));
            }
            // `entry` acyclic programs lead into a cycle of `len` programs
            let total = entry + len;
            let mut has_edges = 0;
            for i in 0..total {
                let next = if i + 1 == total { *entry } else { i + 1 };
                let mut c = if *construct == "mixed" { *r.pick(&CONSTRUCTS) } else { *construct };
                if c == "has" {
                    has_edges += 1;
                    if has_edges > 2 {
                        c = "coalesce";
                    }
                }
                add(&mut ops, &format!("c{}", i), edge(c, &format!("t{}:", i), &format!("c{}", next)));
            }
            expect(&mut ops, &mut r, "c0", Want::Fail);
        }
        Sc::Loop { macro_kind, len, depth } => {
            label = format!("loop:{}", ["map", "all", "filter", "exists_one", "reduce"][*macro_kind]);
            let mut expected = String::new();
            for i in 0..*depth {
                let t = format!("t{}:", i);
                expected.push_str(&t);
                if i + 1 == *depth {
                    add(&mut ops, &format!("c{}", i), format!("'{}end'", t));
                } else {
                    add(&mut ops, &format!("c{}", i), edge("bare", &t, &format!("c{}", i + 1)));
                }
            }
            expected.push_str("end");
            let list = V::List((0..*len as i64).map(V::Int).collect()).render();
            let e = V::Str(expected.clone());
            let (src, want) = match macro_kind {
                0 => (format!("{}.map(v, c0)", list), V::List(vec![e.clone(); *len])),
                1 => (format!("{}.all(v, c0 == {})", list, e.render()), V::Bool(true)),
                2 => (format!("{}.filter(v, c0 == {})", list, e.render()), V::List((0..*len as i64).map(V::Int).collect())),
                3 => (format!("{}.exists_one(v, c0 == {} && v == {})", list, e.render(), *len - 1), V::Bool(true)),
                _ => (format!("{}.reduce(acc, v, acc + size(c0), 0)", list), V::Int((expected.len() * *len) as i64)),
            };
            add(&mut ops, "main", src);
            expect(&mut ops, &mut r, "main", Want::Val(want));
        }
        Sc::Rho { n, back, constructs } => {
            ops.push(Op { t: t_exec, k: OpK::BindFunc { b: 0, name: "idf".into(), ret: V::Other("arg0".into()) } });
            label = format!("rho:{}:{}", n, match back { Some(b) => format!("cycle{}", n - b), None => "path".into() });
            let mut expected = String::new();
            let mut decl: Vec<usize> = (0..*n).collect();
            for i in (1..decl.len()).rev() {
                decl.swap(i, r.usize(i + 1));
            }
            let mut texts = vec![];
            for i in 0..*n {
                let t = format!("t{}#{}:", i, uniq);
                expected.push_str(&t);
                let next = if i + 1 < *n { Some(i + 1) } else { *back };
                match next {
                    Some(j) => texts.push(edge(constructs[i], &t, &format!("c{}", j))),
                    None => texts.push(format!("'{}end'", t)),
                }
            }
            expected.push_str("end");
            for i in decl {
                add(&mut ops, &format!("c{}", i), texts[i].clone());
            }
            let want = if back.is_some() { Want::Fail } else { Want::Val(V::Str(expected)) };
            expect(&mut ops, &mut r, "c0", want);
        }
        Sc::DagEnum { n, mask, construct } => {
            ops.push(Op { t: t_exec, k: OpK::BindFunc { b: 0, name: "idf".into(), ret: V::Other("arg0".into()) } });
            label = format!("dag:{}", n);
            let mut edges: Vec<Vec<usize>> = vec![vec![]; *n];
            let mut bit = 0;
            for i in 0..*n {
                for j in (i + 1)..*n {
                    if mask & (1 << bit) != 0 {
                        edges[i].push(j);
                    }
                    bit += 1;
                }
            }
            fn val(i: usize, e: &Vec<Vec<usize>>, uniq: i64) -> String {
                let mut s = format!("n{}#{}", i, uniq);
                for j in e[i].iter() {
                    s.push('(');
                    s.push_str(&val(*j, e, uniq));
                    s.push(')');
                }
                s
            }
            let mut decl: Vec<usize> = (0..*n).collect();
            for i in (1..decl.len()).rev() {
                decl.swap(i, r.usize(i + 1));
            }
            for i in decl {
                let mut src = format!("'n{}#{}'", i, uniq);
                for j in edges[i].iter() {
                    let inner = match *construct {
                        "bare" => format!("g{}", j),
                        "operand" => format!("(true ? g{} : 'never')", j),
                        "macro_body" => format!("[1].map(v, g{})[0]", j),
                        "macro_range" => format!("[g{}].map(v, v)[0]", j),
                        "call_arg" => format!("idf(g{})", j),
                        "has" => format!("(has(g{}) ? g{} : 'absent')", j, j),
                        "coalesce" => format!("coalesce(g{}, 'null')", j),
                        _ => format!("f'{{g{}}}'", j),
                    };
                    src.push_str(&format!(" + '(' + {} + ')'", inner));
                }
                add(&mut ops, &format!("g{}", i), src);
            }
            expect(&mut ops, &mut r, "g0", Want::Val(V::Str(val(0, &edges, uniq))));
        }
        Sc::Dag | Sc::RandomGraph => {
            ops.push(Op { t: t_exec, k: OpK::BindFunc { b: 0, name: "idf".into(), ret: V::Other("arg0".into()) } });
            let cyclic_allowed = matches!(sc, Sc::RandomGraph);
            let n = 2 + r.usize(3);
            // edges[i] = referenced nodes, in order of evaluation
            let mut edges: Vec<Vec<(usize, &str)>> = vec![vec![]; n];
            for i in 0..n {
                // with cycles allowed every node has at most one reference (tail + cycle shapes):
                // a cycle with fan-out 2 is only cut by the depth guard after 2^32 evaluations
                let k = if cyclic_allowed { r.usize(2) + if i == 0 { 1 } else { 0 } } else { r.usize(3) };
                let k = if cyclic_allowed { k.min(1) } else { k };
                for _ in 0..k {
                    let j = if cyclic_allowed { r.usize(n) } else if i + 1 < n { i + 1 + r.usize(n - i - 1) } else { continue };
                    let c = *r.pick(&["bare", "operand", "macro_body", "macro_range", "call_arg", "coalesce", "fstring"]);
                    edges[i].push((j, c));
                }
            }
            // is a cycle reachable from node 0?
            fn cyc(i: usize, e: &Vec<Vec<(usize, &str)>>, on: &mut Vec<bool>, done: &mut Vec<bool>) -> bool {
                if on[i] {
                    return true;
                }
                if done[i] {
                    return false;
                }
                on[i] = true;
                for (j, _) in e[i].iter() {
                    if cyc(*j, e, on, done) {
                        return true;
                    }
                }
                on[i] = false;
                done[i] = true;
                false
            }
            let cyclic = cyc(0, &edges, &mut vec![false; n], &mut vec![false; n]);
            fn val(i: usize, e: &Vec<Vec<(usize, &str)>>, uniq: i64) -> String {
                let mut s = format!("n{}#{}", i, uniq);
                for (j, _) in e[i].iter() {
                    s.push('(');
                    s.push_str(&val(*j, e, uniq));
                    s.push(')');
                }
                s
            }
            for i in 0..n {
                let mut src = format!("'n{}#{}'", i, uniq);
                for (j, c) in edges[i].iter() {
                    let inner = match *c {
                        "bare" => format!("g{}", j),
                        "operand" => format!("(true ? g{} : 'never')", j),
                        "macro_body" => format!("[1].map(v, g{})[0]", j),
                        "macro_range" => format!("[g{}].map(v, v)[0]", j),
                        "call_arg" => format!("idf(g{})", j),
                        "coalesce" => format!("coalesce(g{}, 'null')", j),
                        _ => format!("f'{{g{}}}'", j),
                    };
                    src.push_str(&format!(" + '(' + {} + ')'", inner));
                }
                add(&mut ops, &format!("g{}", i), src);
            }
            label = format!("graph:{}", if cyclic { "cyclic" } else { "acyclic" });
            let want = if cyclic { Want::Fail } else { Want::Val(V::Str(val(0, &edges, uniq))) };
            expect(&mut ops, &mut r, "g0", want);
        }
    }
    WorldCase { world: "C12".into(), clients, start_ns: instant(&mut r), label, ops }
}
