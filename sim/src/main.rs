mod driver;
mod engine;
mod env;
mod prng;
mod seams;
mod val;
mod world;

use engine::Engine;
use serde_json::{json, Value as J};
use std::io::Read;

fn engine_for(prop: &str) -> Option<Box<dyn Engine>> {
    match prop {
        "C05" => Some(Box::new(env::EnvEngine::new(env::EnvProp::C05))),
        "C07" => Some(Box::new(env::EnvEngine::new(env::EnvProp::C07))),
        "C08" => Some(Box::new(env::EnvEngine::new(env::EnvProp::C08))),
        "C09" => Some(Box::new(world::WorldEngine { prop: world::WorldProp::C09 })),
        "C11" => Some(Box::new(world::WorldEngine { prop: world::WorldProp::C11 })),
        "C12" => Some(Box::new(world::WorldEngine { prop: world::WorldProp::C12 })),
        _ => None,
    }
}

fn usage() -> ! {
    eprintln!("usage: sim check <id> [quick|thorough] | replay <file> | gen <id> <k> | selftest canary|determinism");
    std::process::exit(2)
}

fn read_stdin_json() -> J {
    let mut s = String::new();
    std::io::stdin().read_to_string(&mut s).expect("stdin");
    serde_json::from_str(&s).expect("json on stdin")
}

fn main() {
    let args: Vec<String> = std::env::args().collect();
    if args.len() < 2 {
        usage();
    }
    if let Err(e) = seams::canary() {
        eprintln!("HARNESS ERROR: seam canary failed: {}", e);
        std::process::exit(2);
    }
    match args[1].as_str() {
        "check" => {
            let prop = args.get(2).map(|s| s.as_str()).unwrap_or_else(|| usage());
            let tier = args
                .get(3)
                .cloned()
                .or_else(|| std::env::var("VERIF_TIER").ok())
                .unwrap_or_else(|| "quick".into());
            let eng = engine_for(prop).unwrap_or_else(|| {
                eprintln!("no check for property {}", prop);
                std::process::exit(2)
            });
            std::process::exit(driver::run_check(eng.as_ref(), tier == "thorough"));
        }
        "worker" => {
            let prop = &args[2];
            let thorough = args[3] == "thorough";
            let seed: u64 = args[4].parse().unwrap();
            let w: u64 = args[5].parse().unwrap();
            let n: u64 = args[6].parse().unwrap();
            let outdir = std::path::PathBuf::from(&args[7]);
            let start: u64 = args[8].parse().unwrap();
            let eng = engine_for(prop).unwrap();
            std::process::exit(driver::worker(eng.as_ref(), thorough, seed, w, n, &outdir, start));
        }
        "exec-case" => {
            driver::silence_panics();
            let eng = engine_for(&args[2]).unwrap();
            let case = read_stdin_json();
            match eng.check(&case) {
                Ok(r) => println!("{}", json!({"violation": r.violation, "silent": r.stats.silent})),
                Err(e) => println!("{}", json!({"error": e})),
            }
        }
        "minimise" => {
            driver::silence_panics();
            let eng = engine_for(&args[2]).unwrap();
            let sig = &args[3];
            let case = read_stdin_json();
            let (c, tried) = driver::minimise_here(eng.as_ref(), &case, sig);
            println!("{}", json!({"case": c, "tried": tried}));
        }
        "replay" => {
            let path = args.get(2).unwrap_or_else(|| usage());
            let s = std::fs::read_to_string(path).unwrap_or_else(|e| {
                eprintln!("cannot read {}: {}", path, e);
                std::process::exit(2)
            });
            let j: J = serde_json::from_str(&s).expect("replay json");
            let prop = j["property"].as_str().expect("property").to_string();
            let want = j["violation"]["signature"].as_str().unwrap_or("").to_string();
            match driver::isolated_verdict(&prop, &j["case"]) {
                Ok(Some(v)) => {
                    println!("  oracle={} signature={}", v.oracle, v.signature);
                    println!("  expected: {}", v.expected);
                    println!("  observed: {}", v.observed);
                    println!("  detail:   {}", v.detail);
                    if v.signature != want {
                        println!("  (recorded signature was {})", want);
                    }
                    println!("VIOLATION property={} replay={}", prop, path);
                    std::process::exit(1);
                }
                Ok(None) => {
                    println!("replay {}: property {} holds on this case (recorded violation {} not reproduced)", path, prop, want);
                }
                Err(e) => {
                    eprintln!("HARNESS ERROR: {}", e);
                    std::process::exit(2);
                }
            }
        }
        "gen" => {
            let eng = engine_for(&args[2]).unwrap();
            let k: u64 = args[3].parse().unwrap();
            let thorough = args.get(4).map(|s| s == "thorough").unwrap_or(false);
            let c = eng.case(k, driver::seed_from_env(), thorough);
            println!("{}", serde_json::to_string_pretty(&driver::describe_case(&c)).unwrap());
            driver::silence_panics();
            match eng.check(&c) {
                Ok(r) => println!("{}", json!({"violation": r.violation, "silent": r.stats.silent, "fired": r.stats.fired})),
                Err(e) => println!("error: {}", e),
            }
        }
        "selftest" => match args.get(2).map(|s| s.as_str()) {
            Some("canary") => println!("canary ok"),
            Some("determinism") => {
                // every case is generated twice and decided twice; the generated case, the
                // verdict, the fired fault/probe counters, the abstract states and the
                // distinctness key must be identical (exit 2 otherwise: a harness bug)
                driver::silence_panics();
                let n: u64 = args.get(3).and_then(|s| s.parse().ok()).unwrap_or(300);
                let seed = driver::seed_from_env();
                let mut bad = 0u64;
                for prop in ["C05", "C07", "C08", "C09", "C11", "C12"] {
                    let eng = engine_for(prop).unwrap();
                    let (en, rn) = eng.plan(false);
                    let mut done = 0u64;
                    for i in 0..n {
                        // spread over the enumerated and the random tier
                        let k = if i % 2 == 0 { (i / 2) % (en + rn) } else { en + (i * 7919) % rn.max(1) };
                        let c1 = eng.case(k, seed, false);
                        let c2 = eng.case(k, seed, false);
                        if c1 != c2 {
                            println!("{} case {}: generated differently twice", prop, k);
                            bad += 1;
                            continue;
                        }
                        let (r1, r2) = match (eng.check(&c1), eng.check(&c2)) {
                            (Ok(a), Ok(b)) => (a, b),
                            _ => {
                                println!("{} case {}: harness error", prop, k);
                                bad += 1;
                                continue;
                            }
                        };
                        let sig = |r: &engine::RunResult| r.violation.as_ref().map(|v| v.signature.clone());
                        if sig(&r1) != sig(&r2)
                            || r1.stats.fired != r2.stats.fired
                            || r1.stats.states != r2.stats.states
                            || r1.stats.distinct_key != r2.stats.distinct_key
                            || r1.stats.silent != r2.stats.silent
                        {
                            println!("{} case {}: two executions of the same case differ", prop, k);
                            bad += 1;
                        }
                        done += 1;
                    }
                    println!("determinism {}: {} cases executed twice", prop, done);
                }
                if bad > 0 {
                    eprintln!("HARNESS ERROR: {} nondeterministic case(s)", bad);
                    std::process::exit(2);
                }
                println!("determinism ok");
            }
            _ => usage(),
        },
        _ => usage(),
    }
}
