//! The seams the simulator owns (DESIGN.md §1): the wall clock (S1) and the hash-key
//! source (S2).  Both are libc symbols that std / chrono resolve at link time, so the
//! definitions in this binary take precedence over libc's; rscel itself is untouched.

use std::cell::Cell;
use std::sync::atomic::{AtomicBool, AtomicI64, AtomicU64, Ordering};

pub static SIM_CLOCK_ON: AtomicBool = AtomicBool::new(false);
/// simulated CLOCK_REALTIME, nanoseconds since the Unix epoch
pub static SIM_CLOCK_NS: AtomicI64 = AtomicI64::new(0);
/// number of CLOCK_REALTIME reads served since process start
pub static CLOCK_READS: AtomicU64 = AtomicU64::new(0);
/// number of hash-key draws served from simulator-chosen keys
pub static KEY_DRAWS: AtomicU64 = AtomicU64::new(0);
/// draws by threads that were given no keys (served with the fixed default below)
pub static KEY_DRAWS_DEFAULT: AtomicU64 = AtomicU64::new(0);

thread_local! {
    static HASH_KEYS: Cell<Option<[u8; 16]>> = const { Cell::new(None) };
}

const DEFAULT_KEYS: [u8; 16] = *b"rscel-sim-defkey";

/// Give the calling thread its hash keys; must be the first thing a simulated thread
/// does (std draws the keys lazily, at the thread's first `RandomState::new()`).
pub fn set_thread_hash_keys(k: [u8; 16]) {
    HASH_KEYS.with(|c| c.set(Some(k)));
}

pub fn clock_set(ns: i64) {
    SIM_CLOCK_NS.store(ns, Ordering::SeqCst);
    SIM_CLOCK_ON.store(true, Ordering::SeqCst);
}

pub fn clock_now() -> i64 {
    SIM_CLOCK_NS.load(Ordering::SeqCst)
}

pub fn clock_reads() -> u64 {
    CLOCK_READS.load(Ordering::SeqCst)
}

#[no_mangle]
pub unsafe extern "C" fn getrandom(
    buf: *mut libc::c_void,
    len: libc::size_t,
    _flags: libc::c_uint,
) -> libc::ssize_t {
    let keys = match HASH_KEYS.try_with(|c| c.get()) {
        Ok(Some(k)) => {
            KEY_DRAWS.fetch_add(1, Ordering::SeqCst);
            k
        }
        _ => {
            KEY_DRAWS_DEFAULT.fetch_add(1, Ordering::SeqCst);
            DEFAULT_KEYS
        }
    };
    let out = buf as *mut u8;
    for i in 0..len {
        *out.add(i) = keys[i % 16];
    }
    len as libc::ssize_t
}

#[no_mangle]
pub unsafe extern "C" fn clock_gettime(clk: libc::clockid_t, ts: *mut libc::timespec) -> libc::c_int {
    if clk == libc::CLOCK_REALTIME && SIM_CLOCK_ON.load(Ordering::SeqCst) {
        let ns = SIM_CLOCK_NS.load(Ordering::SeqCst);
        CLOCK_READS.fetch_add(1, Ordering::SeqCst);
        (*ts).tv_sec = ns.div_euclid(1_000_000_000) as libc::time_t;
        (*ts).tv_nsec = ns.rem_euclid(1_000_000_000) as libc::c_long;
        0
    } else {
        libc::syscall(libc::SYS_clock_gettime, clk, ts) as libc::c_int
    }
}

/// Start-up canary (DESIGN.md §3.5): the seams must actually be honoured by this
/// toolchain, otherwise nothing the checks report can be trusted (exit 2).
pub fn canary() -> Result<(), String> {
    use std::collections::HashMap;
    fn order(keys: [u8; 16]) -> Vec<u32> {
        std::thread::spawn(move || {
            set_thread_hash_keys(keys);
            let mut m = HashMap::new();
            for i in 0..12u32 {
                m.insert(i, ());
            }
            m.keys().cloned().collect::<Vec<_>>()
        })
        .join()
        .unwrap()
    }
    let a1 = order([1; 16]);
    let a2 = order([1; 16]);
    let b = order([2; 16]);
    let c = order([3; 16]);
    if a1 != a2 {
        return Err("hash seam: same keys gave different iteration orders".into());
    }
    if a1 == b && a1 == c {
        return Err("hash seam: different keys gave the same iteration order (getrandom not interposed?)".into());
    }
    let was_on = SIM_CLOCK_ON.load(Ordering::SeqCst);
    let old = clock_now();
    let probe = 1_234_567_890_123_456_789i64;
    clock_set(probe);
    let before = clock_reads();
    let now = chrono::Utc::now();
    let ok = now.timestamp_nanos_opt() == Some(probe) && clock_reads() == before + 1;
    SIM_CLOCK_NS.store(old, Ordering::SeqCst);
    SIM_CLOCK_ON.store(was_on, Ordering::SeqCst);
    if !ok {
        return Err(format!("clock seam: Utc::now() returned {:?}, expected the simulated instant", now));
    }
    Ok(())
}
