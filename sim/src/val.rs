//! Harness-side values: one type `V` for generated data, expected results and the
//! canonical form of observed results.  Maps are BTreeMaps (fixed order), floats compare
//! by bit pattern, failures compare by class only (the statements promise results, not
//! wording).

use rscel::{CelError, CelValue};
use serde::{Deserialize, Serialize};
use std::collections::{BTreeMap, HashMap};
use std::fmt;

#[derive(Clone, Copy, Debug, PartialEq, Eq, PartialOrd, Ord, Hash, Serialize, Deserialize)]
pub enum Class {
    Misc,
    Syntax,
    Value,
    Argument,
    InvalidOp,
    Runtime,
    Binding,
    Attribute,
    DivideByZero,
    Internal,
}

impl Class {
    pub fn of(e: &CelError) -> Class {
        match e {
            CelError::Misc(_) => Class::Misc,
            CelError::Syntax(_) => Class::Syntax,
            CelError::Value(_) => Class::Value,
            CelError::Argument(_) => Class::Argument,
            CelError::InvalidOp(_) => Class::InvalidOp,
            CelError::Runtime(_) => Class::Runtime,
            CelError::Binding { .. } => Class::Binding,
            CelError::Attribute { .. } => Class::Attribute,
            CelError::DivideByZero => Class::DivideByZero,
            CelError::Internal(_) => Class::Internal,
        }
    }

    /// "absent" in the sense of C08: unbound variable or missing field/key
    pub fn is_absent(self) -> bool {
        matches!(self, Class::Binding | Class::Attribute)
    }

    /// classes the simulator injects through callbacks (never the absence classes)
    pub const INJECTABLE: [Class; 7] = [
        Class::Value,
        Class::Argument,
        Class::InvalidOp,
        Class::Runtime,
        Class::DivideByZero,
        Class::Misc,
        Class::Internal,
    ];

    pub fn make(self, tag: &str) -> CelError {
        match self {
            Class::Misc => CelError::misc(tag),
            Class::Syntax => CelError::misc(tag),
            Class::Value => CelError::value(tag),
            Class::Argument => CelError::argument(tag),
            Class::InvalidOp => CelError::invalid_op(tag),
            Class::Runtime => CelError::runtime(tag),
            Class::Binding => CelError::binding(tag),
            Class::Attribute => CelError::attribute("obj", tag),
            Class::DivideByZero => CelError::DivideByZero,
            Class::Internal => CelError::internal(tag),
        }
    }
}

#[derive(Clone, Debug, Serialize, Deserialize)]
pub enum V {
    Int(i64),
    UInt(u64),
    /// f64 by bit pattern
    F(u64),
    Bool(bool),
    Str(String),
    Bytes(Vec<u8>),
    List(Vec<V>),
    Map(BTreeMap<String, V>),
    Null,
    Type(String),
    /// timestamp, ns since epoch
    Ts(i64),
    /// duration, ns
    Dur(i64),
    /// a failure (observed side: an error value, also when embedded in a container)
    Err(Class, String),
    /// something no statement speaks about (ident, bytecode, dyn, message)
    Other(String),
}

impl PartialEq for V {
    fn eq(&self, o: &V) -> bool {
        use V::*;
        match (self, o) {
            (Int(a), Int(b)) => a == b,
            (UInt(a), UInt(b)) => a == b,
            (F(a), F(b)) => a == b,
            (Bool(a), Bool(b)) => a == b,
            (Str(a), Str(b)) => a == b,
            (Bytes(a), Bytes(b)) => a == b,
            (List(a), List(b)) => a == b,
            (Map(a), Map(b)) => a == b,
            (Null, Null) => true,
            (Type(a), Type(b)) => a == b,
            (Ts(a), Ts(b)) => a == b,
            (Dur(a), Dur(b)) => a == b,
            (Err(a, _), Err(b, _)) => a == b,
            (Other(a), Other(b)) => a == b,
            _ => false,
        }
    }
}
impl Eq for V {}

impl V {
    pub fn f(x: f64) -> V {
        V::F(x.to_bits())
    }
    pub fn s(x: &str) -> V {
        V::Str(x.to_string())
    }
    pub fn list(xs: Vec<V>) -> V {
        V::List(xs)
    }
    pub fn map(kv: Vec<(&str, V)>) -> V {
        V::Map(kv.into_iter().map(|(k, v)| (k.to_string(), v)).collect())
    }

    /// The one truthiness table of C05.
    pub fn truthy(&self) -> bool {
        match self {
            V::Int(i) => *i != 0,
            V::UInt(u) => *u != 0,
            V::F(b) => f64::from_bits(*b) != 0.0,
            V::Bool(b) => *b,
            V::Str(s) => !s.is_empty(),
            V::Bytes(b) => !b.is_empty(),
            V::List(l) => !l.is_empty(),
            V::Map(m) => !m.is_empty(),
            V::Null => false,
            V::Type(_) | V::Ts(_) | V::Dur(_) => true,
            V::Err(..) => false,
            V::Other(_) => false,
        }
    }

    pub fn type_name(&self) -> &'static str {
        match self {
            V::Int(_) => "int",
            V::UInt(_) => "uint",
            V::F(_) => "float",
            V::Bool(_) => "bool",
            V::Str(_) => "string",
            V::Bytes(_) => "bytes",
            V::List(_) => "list",
            V::Map(_) => "map",
            V::Null => "null_type",
            V::Type(_) => "type",
            V::Ts(_) => "timestamp",
            V::Dur(_) => "duration",
            V::Err(..) => "err",
            V::Other(_) => "other",
        }
    }

    /// does the value contain a failure anywhere (rscel keeps error values inside
    /// containers; no statement covers those, so such results are not compared)
    pub fn has_embedded_err(&self) -> bool {
        match self {
            V::List(l) => l.iter().any(|x| x.is_err() || x.has_embedded_err()),
            V::Map(m) => m.values().any(|x| x.is_err() || x.has_embedded_err()),
            _ => false,
        }
    }

    pub fn is_err(&self) -> bool {
        matches!(self, V::Err(..))
    }

    pub fn to_cel(&self) -> CelValue {
        match self {
            V::Int(i) => CelValue::from_int(*i),
            V::UInt(u) => CelValue::from_uint(*u),
            V::F(b) => CelValue::from_float(f64::from_bits(*b)),
            V::Bool(b) => CelValue::from_bool(*b),
            V::Str(s) => CelValue::from_str(s),
            V::Bytes(b) => CelValue::from_bytes(b.clone()),
            V::List(l) => CelValue::from_list(l.iter().map(|x| x.to_cel()).collect()),
            V::Map(m) => {
                let mut h = HashMap::new();
                for (k, v) in m {
                    h.insert(k.clone(), v.to_cel());
                }
                CelValue::from_map(h)
            }
            V::Null => CelValue::from_null(),
            V::Type(t) => CelValue::from_type(t),
            V::Ts(ns) => CelValue::from_timestamp(chrono::DateTime::from_timestamp_nanos(*ns)),
            V::Dur(ns) => CelValue::from_duration(chrono::Duration::nanoseconds(*ns)),
            V::Err(c, m) => CelValue::from_err(c.make(m)),
            V::Other(s) => CelValue::from_err(CelError::internal(&format!("harness: cannot build {s}"))),
        }
    }

    pub fn from_cel(c: &CelValue) -> V {
        match c {
            CelValue::Int(i) => V::Int(*i),
            CelValue::UInt(u) => V::UInt(*u),
            CelValue::Float(f) => V::F(f.to_bits()),
            CelValue::Bool(b) => V::Bool(*b),
            CelValue::String(s) => V::Str(s.clone()),
            CelValue::Bytes(b) => V::Bytes(b.as_slice().to_vec()),
            CelValue::List(l) => V::List(l.iter().map(V::from_cel).collect()),
            CelValue::Map(m) => V::Map(m.iter().map(|(k, v)| (k.clone(), V::from_cel(v))).collect()),
            CelValue::Null => V::Null,
            CelValue::Ident(i) => V::Other(format!("ident:{i}")),
            CelValue::Type(t) => V::Type(t.clone()),
            CelValue::TimeStamp(t) => match t.timestamp_nanos_opt() {
                Some(ns) => V::Ts(ns),
                None => V::Other(format!("timestamp-out-of-range:{t}")),
            },
            CelValue::Duration(d) => match d.num_nanoseconds() {
                Some(ns) => V::Dur(ns),
                None => V::Other(format!("duration-out-of-range:{d}")),
            },
            CelValue::ByteCode(_) => V::Other("bytecode".into()),
            CelValue::Err(e) => V::Err(Class::of(e), e.to_string()),
            _ => V::Other("opaque".into()),
        }
    }

    /// Render as CEL source text that evaluates to this value.
    pub fn render(&self) -> String {
        match self {
            V::Int(i) => {
                if *i < 0 {
                    format!("({})", i)
                } else {
                    format!("{}", i)
                }
            }
            V::UInt(u) => format!("{}u", u),
            V::F(b) => {
                let f = f64::from_bits(*b);
                if f.is_sign_negative() {
                    format!("({:?})", f)
                } else {
                    format!("{:?}", f)
                }
            }
            V::Bool(b) => format!("{}", b),
            V::Str(s) => render_str(s),
            V::Bytes(b) => format!("b{}", render_str(&String::from_utf8_lossy(b))),
            V::List(l) => format!("[{}]", l.iter().map(|x| x.render()).collect::<Vec<_>>().join(", ")),
            V::Map(m) => format!(
                "{{{}}}",
                m.iter()
                    .map(|(k, v)| format!("{}: {}", render_str(k), v.render()))
                    .collect::<Vec<_>>()
                    .join(", ")
            ),
            V::Null => "null".into(),
            V::Type(t) => t.clone(),
            V::Ts(ns) => {
                debug_assert!(ns % 1_000_000_000 == 0);
                format!("timestamp({})", ns / 1_000_000_000)
            }
            V::Dur(ns) => {
                debug_assert!(ns % 1_000_000_000 == 0);
                format!("duration({})", ns / 1_000_000_000)
            }
            V::Err(..) => "(1/0)".into(),
            V::Other(_) => "null".into(),
        }
    }
}

pub fn render_str(s: &str) -> String {
    // generated strings are plain ASCII without quotes or backslashes
    debug_assert!(s.bytes().all(|b| b.is_ascii() && b != b'\'' && b != b'\\' && b >= 0x20));
    format!("'{}'", s)
}

impl fmt::Display for V {
    fn fmt(&self, f: &mut fmt::Formatter<'_>) -> fmt::Result {
        match self {
            V::Int(i) => write!(f, "{}", i),
            V::UInt(u) => write!(f, "{}u", u),
            V::F(b) => write!(f, "{:?}", f64::from_bits(*b)),
            V::Bool(b) => write!(f, "{}", b),
            V::Str(s) => write!(f, "{:?}", s),
            V::Bytes(b) => write!(f, "b{:?}", String::from_utf8_lossy(b)),
            V::List(l) => {
                write!(f, "[")?;
                for (i, x) in l.iter().enumerate() {
                    if i > 0 {
                        write!(f, ", ")?;
                    }
                    write!(f, "{}", x)?;
                }
                write!(f, "]")
            }
            V::Map(m) => {
                write!(f, "{{")?;
                for (i, (k, v)) in m.iter().enumerate() {
                    if i > 0 {
                        write!(f, ", ")?;
                    }
                    write!(f, "{:?}: {}", k, v)?;
                }
                write!(f, "}}")
            }
            V::Null => write!(f, "null"),
            V::Type(t) => write!(f, "type({})", t),
            V::Ts(ns) => write!(f, "ts({}ns)", ns),
            V::Dur(ns) => write!(f, "dur({}ns)", ns),
            V::Err(c, m) => write!(f, "FAIL<{:?}: {}>", c, m),
            V::Other(s) => write!(f, "OTHER<{}>", s),
        }
    }
}

/// What one evaluation returned to the caller of `exec`.
#[derive(Clone, Debug, PartialEq, Eq, Serialize, Deserialize)]
pub enum Outcome {
    Val(V),
    Fail(Class, String),
    Panic(String),
}

impl Outcome {
    pub fn from_result(r: &rscel::CelResult<CelValue>) -> Outcome {
        match r {
            Ok(v) => match V::from_cel(v) {
                V::Err(c, m) => Outcome::Fail(c, m),
                v => Outcome::Val(v),
            },
            Err(e) => Outcome::Fail(Class::of(e), e.to_string()),
        }
    }

    /// equality that ignores failure wording
    pub fn same(&self, o: &Outcome) -> bool {
        match (self, o) {
            (Outcome::Val(a), Outcome::Val(b)) => a == b,
            (Outcome::Fail(a, _), Outcome::Fail(b, _)) => a == b,
            (Outcome::Panic(_), Outcome::Panic(_)) => true,
            _ => false,
        }
    }

    pub fn is_fail(&self) -> bool {
        matches!(self, Outcome::Fail(..))
    }
}

impl fmt::Display for Outcome {
    fn fmt(&self, f: &mut fmt::Formatter<'_>) -> fmt::Result {
        match self {
            Outcome::Val(v) => write!(f, "{}", v),
            Outcome::Fail(c, m) => write!(f, "FAIL<{:?}: {}>", c, m),
            Outcome::Panic(m) => write!(f, "PANIC<{}>", m),
        }
    }
}
