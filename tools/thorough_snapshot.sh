#!/bin/sh
# tools/thorough_snapshot.sh <id> ... : development aid — runs the thorough tier of the named checks on a
# frozen copy of /repo's HEAD and of /verif's working tree (so /repo may be patched by the battery
# meanwhile).  Results are not evidence; they only tell whether a thorough run stays quiet.
SB=/tmp/th-snap
rm -rf $SB/verif $SB/out; git -C /repo worktree remove --force $SB/repo 2>/dev/null; mkdir -p $SB/out
git -C /repo worktree add --detach $SB/repo HEAD >/dev/null 2>&1 || exit 2
rsync -a --exclude .git --exclude sim/target/runs /verif/ $SB/verif/
sed -i "s#/repo/rscel#$SB/repo/rscel#" $SB/verif/sim/Cargo.toml
export VERIF_OUT_DIR=$SB/out
for id in "$@"; do
  /usr/bin/time -f "$id thorough %es" nice -n 10 $SB/verif/check $id thorough 2>&1 | tail -4
done
git -C /repo worktree remove --force $SB/repo; rm -rf $SB/verif
