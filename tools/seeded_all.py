#!/usr/bin/env python3
"""tools/seeded_all.py [name ...] — sensitivity battery.
For every directory under /verif/seeded (or the named ones): apply patch.diff to /repo's working tree,
run the quick tier of the checks named in meta.json ("property" plus "also_run"), record exit code and
violation signatures in meta.json ("results"), restore /repo (git checkout -- .).  Evidence and replay
files of these runs go to a scratch directory (VERIF_OUT_DIR), never to /verif/evidence.
Exit 0 if every change whose meta.json says expect_detected=true was reported by at least one check."""
import json, os, subprocess, sys, shutil, time
ROOT = os.path.dirname(os.path.dirname(os.path.abspath(__file__)))
SEEDED = os.path.join(ROOT, 'seeded')
names = sys.argv[1:] or sorted(os.listdir(SEEDED))
def sh(*a, **k): return subprocess.run(a, capture_output=True, text=True, **k)
if sh('git', '-C', '/repo', 'status', '--porcelain', '--untracked-files=no').stdout.strip():
    print('refusing: /repo has uncommitted changes'); sys.exit(2)
head = sh('git', '-C', '/repo', 'rev-parse', '--short', 'HEAD').stdout.strip()
vhead = sh('git', '-C', ROOT, 'rev-parse', '--short', 'HEAD').stdout.strip()
missed = []
for n in names:
    d = os.path.join(SEEDED, n)
    mp = os.path.join(d, 'meta.json')
    if not os.path.isfile(mp): continue
    meta = json.load(open(mp))
    checks = [meta['property']] + meta.get('also_run', [])
    r = sh('git', '-C', '/repo', 'apply', os.path.join(d, 'patch.diff'))
    if r.returncode != 0:
        print(n, 'patch does not apply:', r.stderr.strip()[:200]); missed.append(n); continue
    out_dir = f'/tmp/seeded-out/{n}'
    shutil.rmtree(out_dir, ignore_errors=True); os.makedirs(out_dir)
    results = {}
    try:
        for c in checks:
            t0 = time.time()
            p = sh(os.path.join(ROOT, 'check'), c, 'quick', env=dict(os.environ, VERIF_OUT_DIR=out_dir))
            sigs = sorted({l.split('signature=')[1].strip() for l in p.stdout.splitlines() if 'signature=' in l})
            results[c] = {'exit': p.returncode, 'signatures': sigs, 'seconds': round(time.time() - t0)}
            print(n, c, 'exit', p.returncode, ' '.join(sigs)[:160], flush=True)
    finally:
        sh('git', '-C', '/repo', 'checkout', '--', '.')
        # files a patch added are untracked: remove them too (source directories only)
        sh('git', '-C', '/repo', 'clean', '-fdq', '--', 'rscel/src', 'rscel-macro/src', 'extensions')
    meta['results'] = results
    meta['results_at_repo_commit'] = head
    meta['results_at_verif_commit'] = vhead
    meta['detected_by'] = [c for c, v in results.items() if v['exit'] == 1]
    json.dump(meta, open(mp, 'w'), indent=1); open(mp, 'a').write('\n')
    if meta.get('expect_detected', True) and not meta['detected_by']:
        missed.append(n)
print('not detected:', missed if missed else 'none')
sys.exit(1 if missed else 0)
