#!/bin/sh
# tools/import_seeded.sh <prop> <agent-out-dir> [suffix] : copy m*/ into /verif/seeded/<prop>-<suffix>m<k>/ with a meta.json stub
P=$1; SRC=$2; SUF=${3:-}
for d in $SRC/m*; do
  k=$(basename $d); T=/verif/seeded/$P-$SUF$k; mkdir -p $T
  cp $d/patch.diff $d/demo.rs $T/; cp $d/notes.md $T/notes.md 2>/dev/null
  [ -f $T/meta.json ] || printf '{\n "property": "%s",\n "source": "independent sub-agent given only the property text and a scratch worktree",\n "needs": "",\n "confirmed": "",\n "detected_by": []\n}\n' $P > $T/meta.json
done
ls /verif/seeded
