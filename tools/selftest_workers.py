#!/usr/bin/env python3
"""tools/selftest_workers.py [n] — determinism across processes and worker counts.
Every check is run three times with VERIF_RANDOM_CASES=n (default 400): with 16 workers, with 16
workers again, and with 3 workers.  Which worker process executes which run, and in which order, differs
between the three; the aggregated counters every run contributes to (fired fault/probe kinds, operations,
callback events, simulated time, distinct cases / states) must be identical.  Exit 2 on any difference
(a harness defect: some run depends on something other than its seed)."""
import json, os, subprocess, sys, shutil
ROOT = os.path.dirname(os.path.dirname(os.path.abspath(__file__)))
n = sys.argv[1] if len(sys.argv) > 1 else '400'
bad = 0
for prop in ['C05', 'C07', 'C08', 'C09', 'C11', 'C12']:
    seen = []
    for tag, workers in [('a', '16'), ('b', '16'), ('c', '3')]:
        out = f'/tmp/selftest-workers/{prop}-{tag}'
        shutil.rmtree(out, ignore_errors=True); os.makedirs(out)
        env = dict(os.environ, VERIF_OUT_DIR=out, VERIF_RANDOM_CASES=n, VERIF_WORKERS=workers)
        p = subprocess.run([os.path.join(ROOT, 'check'), prop, 'quick'], env=env, capture_output=True, text=True)
        if p.returncode != 0:
            print(prop, tag, 'exit', p.returncode); bad += 1; continue
        c = json.load(open(os.path.join(out, 'evidence', prop + '.json')))['coverage']
        seen.append({k: c[k] for k in ['evaluations', 'distinct_cases', 'distinct_nontrivial', 'distinct_states', 'ops_executed', 'callback_events', 'sim_time_ns', 'fault_counts', 'silent_reasons']})
    if len(seen) == 3 and seen[0] == seen[1] == seen[2]:
        print(f'workers {prop}: 16/16/3 workers agree on {seen[0]["evaluations"]} runs, {len(seen[0]["fault_counts"])} fault/probe kinds')
    else:
        bad += 1
        for k in (seen[0] if seen else {}):
            vals = [s.get(k) for s in seen]
            if any(v != vals[0] for v in vals):
                print(f'workers {prop}: {k} differs: {str(vals)[:400]}')
shutil.rmtree('/tmp/selftest-workers', ignore_errors=True)
if bad:
    print('HARNESS ERROR: runs are not a function of their seed alone'); sys.exit(2)
print('workers ok')
