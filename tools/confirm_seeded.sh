#!/bin/sh
# tools/confirm_seeded.sh <dir-with-patch.diff-and-demo.rs> [name]
# Confirms a seeded change in a scratch worktree of /repo (outside /repo and /verif):
#   1. demo passes on the unchanged tree, 2. patch applies and compiles, 3. demo fails with it,
#   4. the unedited test suite passes with it.  Prints CONFIRMED or a reason; the worktree is
#   kept between calls for speed (tools/confirm_seeded.sh --cleanup removes it).
WT=${WT:-/tmp/wt-confirm}
export CARGO_NET_OFFLINE=true
if [ "$1" = "--cleanup" ]; then git -C /repo worktree remove --force $WT 2>/dev/null; rm -rf $WT; exit 0; fi
D=$(cd "$1" && pwd) || exit 2
N=${2:-demo_seeded}
if [ ! -d $WT ]; then
  git -C /repo worktree add --detach $WT HEAD >/dev/null 2>&1 || exit 2
  cp -r /repo/target $WT/target
fi
cd $WT || exit 2
git checkout -q --detach "$(git -C /repo rev-parse HEAD)" && git checkout -q -- . && git clean -fdq -e target -e Cargo.lock
mkdir -p rscel/tests; [ -f Cargo.lock ] || cp /repo/Cargo.lock Cargo.lock
cp "$D/demo.rs" rscel/tests/$N.rs
echo "== demo on unchanged tree"
if ! cargo test -p rscel --offline --test $N >$D/.confirm_base.log 2>&1; then echo "NOT-CONFIRMED: demo fails on the unchanged tree"; tail -20 $D/.confirm_base.log; exit 1; fi
echo "== apply patch"
if ! git apply "$D/patch.diff"; then echo "NOT-CONFIRMED: patch does not apply"; exit 1; fi
echo "== demo with the change"
if timeout 600 cargo test -p rscel --offline --test $N >$D/.confirm_mut.log 2>&1; then echo "NOT-CONFIRMED: demo passes with the change"; exit 1; fi
if grep -q "could not compile" $D/.confirm_mut.log; then echo "NOT-CONFIRMED: does not compile"; tail -30 $D/.confirm_mut.log; exit 1; fi
grep -E "test result|panicked|FAILED|signal" $D/.confirm_mut.log | head -5
rm rscel/tests/$N.rs
echo "== full suite with the change"
if ! cargo test --workspace --no-fail-fast --offline >$D/.confirm_suite.log 2>&1; then echo "NOT-CONFIRMED: suite fails with the change"; grep -E "FAILED|failed|panicked" $D/.confirm_suite.log | head; exit 1; fi
grep -E "^test result" $D/.confirm_suite.log | awk '{p+=$4; f+=$6} END {print "suite: passed="p" failed="f}'
git checkout -q -- . && git clean -fdq -e target -e Cargo.lock
echo CONFIRMED
