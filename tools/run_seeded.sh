#!/bin/sh
# tools/run_seeded.sh <seeded-dir> [check-id ...] [-- tier]
# Applies seeded/<id>/patch.diff to /repo's working tree, runs the named checks (default: the
# property in meta.json) in the quick tier, prints each verdict, and restores /repo.
ROOT=$(cd "$(dirname "$0")/.." && pwd)
D=$(cd "$1" && pwd) || exit 2; shift
TIER=${VERIF_TIER:-quick}
IDS="$*"
[ -n "$IDS" ] || IDS=$(sed -n 's/.*"property": *"\([A-Z0-9]*\)".*/\1/p' "$D/meta.json" | head -1)
if [ -n "$(git -C /repo status --porcelain --untracked-files=no)" ]; then echo "refusing: /repo has uncommitted changes" >&2; exit 2; fi
git -C /repo apply "$D/patch.diff" || { echo "patch does not apply" >&2; exit 2; }
trap 'git -C /repo checkout -- .; git -C /repo clean -fdq -- rscel/src rscel-macro/src extensions' EXIT INT TERM
export VERIF_OUT_DIR=/tmp/seeded-out/$(basename $D); mkdir -p $VERIF_OUT_DIR
for id in $IDS; do
  out=$("$ROOT/check" "$id" "$TIER" 2>&1); rc=$?
  echo "$(basename $D) $id rc=$rc $(echo "$out" | grep -E '^VIOLATION|KNOWN-FINDING|HARNESS' | head -3 | tr '\n' ' ')"
  echo "$out" | grep -E "signature|oracle" | head -3
done
