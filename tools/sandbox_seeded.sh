#!/bin/sh
# tools/sandbox_seeded.sh <seeded-dir> [check-id ...]
# Development aid: runs checks against a seeded change in full isolation — a scratch worktree
# of /repo with the patch applied and a copy of /verif's working tree whose simulator is
# pointed at that worktree — so /repo stays untouched and several can run at once.  The
# results recorded in seeded/*/meta.json come from tools/run_seeded.sh (patch applied to /repo).
D=$(cd "$1" && pwd) || exit 2; shift
N=$(basename $D)
IDS="$*"
[ -n "$IDS" ] || IDS=$(sed -n 's/.*"property": *"\([A-Z0-9]*\)".*/\1/p' "$D/meta.json" | head -1)
SB=/tmp/sb-$N
rm -rf $SB/verif $SB/out; git -C /repo worktree remove --force $SB/repo 2>/dev/null; mkdir -p $SB
git -C /repo worktree add --detach $SB/repo HEAD >/dev/null 2>&1 || exit 2
git -C $SB/repo apply "$D/patch.diff" || { echo "patch does not apply"; exit 2; }
rsync -a --exclude .git --exclude sim/target/runs --exclude "incremental" ${VERIF_SRC:-/verif}/ $SB/verif/ 2>/dev/null
sed -i "s#path = \"[^\"]*rscel\"#path = \"$SB/repo/rscel\"#" $SB/verif/sim/Cargo.toml
export VERIF_OUT_DIR=$SB/out; mkdir -p $SB/out
for id in $IDS; do
  out=$($SB/verif/check "$id" ${VERIF_TIER:-quick} 2>&1); rc=$?
  echo "$N $id rc=$rc $(echo "$out" | grep -E '^VIOLATION|KNOWN-FINDING|HARNESS' | head -2 | tr '\n' ' ')"
  echo "$out" | grep -E "signature=" | head -3
  [ $rc = 2 ] && echo "$out" | tail -15
done
git -C /repo worktree remove --force $SB/repo; rm -rf $SB/verif
